package hx

import (
	"bytes"
	"context"
	"crypto/sha256"
	"encoding/hex"
	"errors"
	"fmt"
	"io/fs"
	"os"
	"os/exec"
	"path/filepath"
	"sort"
	"strings"
	"syscall"
	"time"
)

// File is one file of a scratch module.
type File struct {
	Name string `json:"name"`
	Data string `json:"data"`
}

// Files is an ordered file list (order matters only for readability of replay archives).
type Files []File

// Get returns the content of a file.
func (fs Files) Get(name string) (string, bool) {
	for _, f := range fs {
		if f.Name == name {
			return f.Data, true
		}
	}
	return "", false
}

// Set replaces or appends a file.
func (fs Files) Set(name, data string) Files {
	for i := range fs {
		if fs[i].Name == name {
			out := append(Files(nil), fs...)
			out[i].Data = data
			return out
		}
	}
	return append(append(Files(nil), fs...), File{name, data})
}

// WriteTree materialises files below root.
func WriteTree(root string, files Files) error {
	for _, f := range files {
		p := filepath.Join(root, filepath.FromSlash(f.Name))
		if err := os.MkdirAll(filepath.Dir(p), 0o755); err != nil {
			return err
		}
		if err := os.WriteFile(p, []byte(f.Data), 0o644); err != nil {
			return err
		}
	}
	return nil
}

// Result is the observable outcome of one process.
type Result struct {
	Exit     int
	Stdout   string
	Stderr   string
	TimedOut bool
	Signaled bool
	Dur      time.Duration
}

// Crashed implements tolerance T22: killed by a signal, or a Go panic / fatal error dump.
func (r Result) Crashed() bool {
	if r.Signaled && !r.TimedOut {
		return true
	}
	return strings.Contains(r.Stderr, "panic: ") && strings.Contains(r.Stderr, "goroutine ") ||
		strings.Contains(r.Stderr, "fatal error: ") && strings.Contains(r.Stderr, "goroutine ")
}

// RunOpts configures one process.
type RunOpts struct {
	Dir     string
	Args    []string
	Env     []string // appended to the base environment
	Timeout time.Duration
	Stdin   string
	// StdoutTo: a path opened for writing that takes the place of the captured stdout (e.g. /dev/full: every write fails)
	StdoutTo string
}

// BaseEnv is the pinned environment for convergen runs inside scratch modules: GOFLAGS is empty so
// that the go command never rewrites go.mod/go.sum of the scratch module on the harness's behalf.
func BaseEnv() []string {
	keep := []string{"PATH", "HOME", "GOPATH", "GOCACHE", "GOMODCACHE", "GOROOT", "TMPDIR", "GOCOVERDIR"}
	var env []string
	for _, k := range keep {
		if v, ok := os.LookupEnv(k); ok {
			env = append(env, k+"="+v)
		}
	}
	env = append(env, "GOFLAGS=", "GOPROXY=off", "GOSUMDB=off", "GOTOOLCHAIN=local", "GO111MODULE=on", "GOWORK=off")
	return env
}

// Run executes a program and captures everything observable.
func Run(prog string, o RunOpts) Result {
	if o.Timeout == 0 {
		o.Timeout = 120 * time.Second
	}
	ctx, cancel := context.WithTimeout(context.Background(), o.Timeout)
	defer cancel()
	cmd := exec.CommandContext(ctx, prog, o.Args...)
	cmd.Dir = o.Dir
	cmd.Env = append(BaseEnv(), o.Env...)
	cmd.SysProcAttr = &syscall.SysProcAttr{Setpgid: true}
	cmd.Cancel = func() error { return syscall.Kill(-cmd.Process.Pid, syscall.SIGKILL) }
	cmd.WaitDelay = 5 * time.Second
	var so, se bytes.Buffer
	cmd.Stdout, cmd.Stderr = &so, &se
	if o.StdoutTo != "" {
		if f, err := os.OpenFile(o.StdoutTo, os.O_WRONLY, 0); err == nil {
			defer f.Close()
			cmd.Stdout = f
		}
	}
	if o.Stdin != "" {
		cmd.Stdin = strings.NewReader(o.Stdin)
	}
	start := time.Now()
	err := cmd.Run()
	r := Result{Stdout: so.String(), Stderr: se.String(), Dur: time.Since(start)}
	if ctx.Err() == context.DeadlineExceeded {
		r.TimedOut = true
	}
	if err != nil {
		var ee *exec.ExitError
		if errors.As(err, &ee) {
			r.Exit = ee.ExitCode()
			if ws, ok := ee.Sys().(syscall.WaitStatus); ok && ws.Signaled() {
				r.Signaled = true
			}
		} else {
			r.Exit = -1
			r.Stderr += "\n[harness] " + err.Error()
		}
	}
	return r
}

// GoTool runs the go command inside a scratch module (ordinary build: no tags).
func GoTool(dir string, timeout time.Duration, args ...string) Result {
	return Run("go", RunOpts{Dir: dir, Args: args, Timeout: timeout})
}

// Entry describes one path of a snapshot.
type Entry struct {
	Mode fs.FileMode
	Size int64
	Sum  string
	Link string
}

// Snapshot maps every path below root (relative, slash separated) to its mode, size and digest.
type Snapshot map[string]Entry

// Snap walks root.
func Snap(root string) Snapshot {
	s := Snapshot{}
	_ = filepath.Walk(root, func(p string, info fs.FileInfo, err error) error {
		if err != nil {
			return nil
		}
		rel, _ := filepath.Rel(root, p)
		rel = filepath.ToSlash(rel)
		e := Entry{Mode: info.Mode(), Size: info.Size()}
		switch {
		case info.Mode()&fs.ModeSymlink != 0:
			e.Link, _ = os.Readlink(p)
		case info.Mode().IsRegular():
			b, err := os.ReadFile(p)
			if err == nil {
				h := sha256.Sum256(b)
				e.Sum = hex.EncodeToString(h[:])
			}
		case info.IsDir():
			e.Size = 0
		}
		s[rel] = e
		return nil
	})
	return s
}

// Diff lists created, deleted and modified paths (sorted).
func (s Snapshot) Diff(after Snapshot) (created, deleted, modified []string) {
	for p, a := range after {
		b, ok := s[p]
		if !ok {
			created = append(created, p)
		} else if a != b {
			modified = append(modified, p)
		}
	}
	for p := range s {
		if _, ok := after[p]; !ok {
			deleted = append(deleted, p)
		}
	}
	sort.Strings(created)
	sort.Strings(deleted)
	sort.Strings(modified)
	return
}

// Hash returns a short stable digest of the parts.
func Hash(parts ...string) string {
	h := sha256.New()
	for _, p := range parts {
		fmt.Fprintf(h, "%d:%s|", len(p), p)
	}
	return hex.EncodeToString(h.Sum(nil))[:16]
}

// ReadFileOr returns the content of a file or def when it cannot be read.
func ReadFileOr(path, def string) string {
	b, err := os.ReadFile(path)
	if err != nil {
		return def
	}
	return string(b)
}

// Exists reports whether path exists.
func Exists(path string) bool {
	_, err := os.Lstat(path)
	return err == nil
}
