package hx

import (
	"fmt"
	"os"
	"path/filepath"
	"strconv"
)

// Env is the run configuration handed down by bin/check through the environment.
type Env struct {
	ID       string // property id, e.g. C19
	Tier     string // quick | thorough
	Seed     uint64 // VERIF_SEED
	Shard    int    // index of this process among Shards
	Shards   int
	Bin      string // built convergen binary (rebuilt from /repo's working tree by bin/check)
	Work     string // scratch directory of this shard (outside /repo and /verif)
	OutFile  string // where the shard writes its counters
	VerifDir string // /verif
	RepoDir  string // /repo (or VERIF_REPO for sensitivity runs on a scratch copy)
	Replay   string // when set: re-judge this archive only, without rapid
	FoundDir string // where new failing cases are written
}

func getenv(k, def string) string {
	if v := os.Getenv(k); v != "" {
		return v
	}
	return def
}

// LoadEnv reads the environment; it works with defaults when a test is run by hand.
func LoadEnv(id string) *Env {
	e := &Env{ID: id}
	e.Tier = getenv("VERIF_TIER", "quick")
	e.Seed, _ = strconv.ParseUint(getenv("VERIF_SEED", "1"), 10, 64)
	e.Shard, _ = strconv.Atoi(getenv("VERIF_SHARD", "0"))
	e.Shards, _ = strconv.Atoi(getenv("VERIF_SHARDS", "1"))
	e.Bin = os.Getenv("VERIF_BIN")
	e.Work = os.Getenv("VERIF_WORK")
	if e.Work == "" {
		d, err := os.MkdirTemp("", "verif-manual-")
		if err != nil {
			panic(err)
		}
		e.Work = d
	}
	e.OutFile = getenv("VERIF_OUT", filepath.Join(e.Work, "out.json"))
	e.VerifDir = getenv("VERIF_DIR", "/verif")
	e.RepoDir = getenv("VERIF_REPO", "/repo")
	e.Replay = os.Getenv("VERIF_REPLAY")
	e.FoundDir = getenv("VERIF_FOUND", filepath.Join(e.VerifDir, "found", id))
	return e
}

// Thorough reports whether the thorough tier was requested.
func (e *Env) Thorough() bool { return e.Tier == "thorough" }

// Pick returns q in the quick tier and t in the thorough tier.
func (e *Env) Pick(q, t int) int {
	if e.Thorough() {
		return t
	}
	return q
}

// SplitMix64 is the only PRNG used outside rapid (value generators inside emitted drivers are
// seeded from values drawn by rapid).
func SplitMix64(x uint64) uint64 {
	x += 0x9e3779b97f4a7c15
	z := x
	z = (z ^ (z >> 30)) * 0xbf58476d1ce4e5b9
	z = (z ^ (z >> 27)) * 0x94d049bb133111eb
	return z ^ (z >> 31)
}

// SubSeed derives a deterministic sub-seed from the run seed, the shard and a label.
func (e *Env) SubSeed(label string) uint64 {
	h := e.Seed
	for _, c := range []byte(e.ID + "/" + label) {
		h = SplitMix64(h ^ uint64(c))
	}
	h = SplitMix64(h ^ uint64(e.Shard)<<32)
	return h | 1
}

// Scratch creates a fresh directory below the shard's work directory.
func (e *Env) Scratch(prefix string) string {
	d, err := os.MkdirTemp(e.Work, prefix)
	if err != nil {
		panic(fmt.Sprintf("scratch: %v", err))
	}
	return d
}
