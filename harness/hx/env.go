package hx

import (
	"fmt"
	"os"
	"os/exec"
	"path/filepath"
	"strconv"
)

// Env is the run configuration handed down by bin/check through the environment.
type Env struct {
	ID       string // property id, e.g. C19
	Tier     string // quick | thorough
	Seed     uint64 // VERIF_SEED
	Shard    int    // index of this process among Shards
	Shards   int
	Bin      string // built convergen binary (rebuilt from /repo's working tree by bin/check)
	Work     string // scratch directory of this shard (outside /repo and /verif)
	OutFile  string // where the shard writes its counters
	VerifDir string // /verif
	RepoDir  string // /repo (or VERIF_REPO for sensitivity runs on a scratch copy)
	Replay   string // when set: re-judge this archive only, without rapid
	FoundDir string // where new failing cases are written
}

func getenv(k, def string) string {
	if v := os.Getenv(k); v != "" {
		return v
	}
	return def
}

// LoadEnv reads the environment; it works with defaults when a test is run by hand.
func LoadEnv(id string) *Env {
	e := &Env{ID: id}
	e.Tier = getenv("VERIF_TIER", "quick")
	e.Seed, _ = strconv.ParseUint(getenv("VERIF_SEED", "1"), 10, 64)
	e.Shard, _ = strconv.Atoi(getenv("VERIF_SHARD", "0"))
	e.Shards, _ = strconv.Atoi(getenv("VERIF_SHARDS", "1"))
	e.Bin = os.Getenv("VERIF_BIN")
	e.Work = os.Getenv("VERIF_WORK")
	if e.Work == "" {
		d, err := os.MkdirTemp("", "verif-manual-")
		if err != nil {
			panic(err)
		}
		e.Work = d
	}
	e.OutFile = getenv("VERIF_OUT", filepath.Join(e.Work, "out.json"))
	e.VerifDir = getenv("VERIF_DIR", "/verif")
	e.RepoDir = getenv("VERIF_REPO", "/repo")
	e.Replay = os.Getenv("VERIF_REPLAY")
	e.FoundDir = getenv("VERIF_FOUND", filepath.Join(e.VerifDir, "found", id))
	return e
}

// shard-private Go build cache for everything compiled inside scratch modules
var (
	cacheSeed  string
	cacheDir   string
	cacheCalls int
)

// InitScratchCache gives the process a private GOCACHE (inherited by every child: the convergen binary's
// `go list`, `go build` and `go test` of scratch modules), populated with hard links to the seed that
// bin/check built (compiled standard library). Without a seed the shared cache is used.
func (e *Env) InitScratchCache() {
	cacheSeed = os.Getenv("VERIF_GOCACHE_SEED")
	if cacheSeed == "" || !Exists(filepath.Join(cacheSeed, ".complete")) {
		return
	}
	cacheDir = filepath.Join(e.Work, "gocache")
	resetScratchCache()
}

func resetScratchCache() {
	if cacheDir == "" {
		return
	}
	_ = os.RemoveAll(cacheDir)
	// hard-link copy: instant and takes no space
	if out, err := exec.Command("cp", "-al", cacheSeed, cacheDir).CombinedOutput(); err != nil {
		_ = os.RemoveAll(cacheDir)
		if out2, err2 := exec.Command("cp", "-a", cacheSeed, cacheDir).CombinedOutput(); err2 != nil {
			panic(fmt.Sprintf("scratch cache: %v %s %v %s", err, out, err2, out2))
		}
	}
	os.Setenv("GOCACHE", cacheDir)
}

// ScratchCacheTick is called once per compiled scratch module; every few hundred modules the private
// cache (which holds nothing reusable apart from the seed) is thrown away and linked afresh.
func ScratchCacheTick() {
	cacheCalls++
	if cacheCalls%300 == 0 {
		resetScratchCache()
	}
}

// Thorough reports whether the thorough tier was requested.
func (e *Env) Thorough() bool { return e.Tier == "thorough" }

// Pick returns q in the quick tier and t in the thorough tier.
func (e *Env) Pick(q, t int) int {
	if e.Thorough() {
		return t
	}
	return q
}

// SplitMix64 is the only PRNG used outside rapid (value generators inside emitted drivers are
// seeded from values drawn by rapid).
func SplitMix64(x uint64) uint64 {
	x += 0x9e3779b97f4a7c15
	z := x
	z = (z ^ (z >> 30)) * 0xbf58476d1ce4e5b9
	z = (z ^ (z >> 27)) * 0x94d049bb133111eb
	return z ^ (z >> 31)
}

// SubSeed derives a deterministic sub-seed from the run seed, the shard and a label.
func (e *Env) SubSeed(label string) uint64 {
	h := e.Seed
	for _, c := range []byte(e.ID + "/" + label) {
		h = SplitMix64(h ^ uint64(c))
	}
	h = SplitMix64(h ^ uint64(e.Shard)<<32)
	return h | 1
}

// Scratch creates a fresh directory below the shard's work directory.
func (e *Env) Scratch(prefix string) string {
	d, err := os.MkdirTemp(e.Work, prefix)
	if err != nil {
		panic(fmt.Sprintf("scratch: %v", err))
	}
	return d
}
