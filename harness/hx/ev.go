package hx

import (
	"encoding/json"
	"fmt"
	"os"
	"path/filepath"
	"sort"
	"strings"
	"sync"
	"time"

	"golang.org/x/tools/txtar"
)

// Case is a replayable unit: a scratch module plus the metadata the property's judge needs.
type Case struct {
	Property    string          `json:"property"`
	Kind        string          `json:"kind"`                  // which oracle of the property judges it
	Fingerprint string          `json:"fingerprint,omitempty"` // filled when it failed
	What        string          `json:"what,omitempty"`        // what failed, human readable
	Meta        json.RawMessage `json:"meta,omitempty"`        // property specific judge input
	Files       Files           `json:"-"`
}

// SaveCase writes a case as a txtar archive whose comment is the JSON header.
func SaveCase(path string, c *Case) error {
	hdr, err := json.MarshalIndent(c, "", "  ")
	if err != nil {
		return err
	}
	ar := &txtar.Archive{Comment: append(hdr, '\n')}
	for _, f := range c.Files {
		ar.Files = append(ar.Files, txtar.File{Name: f.Name, Data: []byte(f.Data)})
	}
	if err := os.MkdirAll(filepath.Dir(path), 0o755); err != nil {
		return err
	}
	return os.WriteFile(path, txtarFormat(ar), 0o644)
}

// txtar cannot represent a non-empty file without a trailing newline: such files are stored under
// "<name>.__nonl" with one newline appended, and LoadCase undoes that.
const noNL = ".__nonl"

func txtarFormat(ar *txtar.Archive) []byte {
	cp := &txtar.Archive{Comment: ar.Comment}
	for _, f := range ar.Files {
		if len(f.Data) > 0 && f.Data[len(f.Data)-1] != '\n' {
			d := append(append([]byte(nil), f.Data...), '\n')
			cp.Files = append(cp.Files, txtar.File{Name: f.Name + noNL, Data: d})
			continue
		}
		cp.Files = append(cp.Files, f)
	}
	return txtar.Format(cp)
}

// LoadCase reads an archive written by SaveCase.
func LoadCase(path string) (*Case, error) {
	b, err := os.ReadFile(path)
	if err != nil {
		return nil, err
	}
	ar := txtar.Parse(b)
	c := &Case{}
	if err := json.Unmarshal(ar.Comment, c); err != nil {
		return nil, fmt.Errorf("%s: header: %w", path, err)
	}
	for _, f := range ar.Files {
		d := string(f.Data)
		if strings.HasSuffix(f.Name, noNL) {
			f.Name = strings.TrimSuffix(f.Name, noNL)
			d = strings.TrimSuffix(d, "\n")
		}
		c.Files = append(c.Files, File{Name: f.Name, Data: d})
	}
	return c, nil
}

// Verdict is what a judge says about one case.
type Verdict struct {
	OK           bool
	Fingerprint  string
	What         string
	Inconclusive bool
}

// Pass is the passing verdict.
var Pass = Verdict{OK: true}

// Failf builds a failing verdict.
func Failf(fp, format string, a ...any) Verdict {
	return Verdict{Fingerprint: fp, What: fmt.Sprintf(format, a...)}
}

// Finding is one entry of /verif/known_findings.json.
type Finding struct {
	Property    string `json:"property"`
	Status      string `json:"status"` // open | fixed
	Fingerprint string `json:"fingerprint"`
	What        string `json:"what"`
	Replay      string `json:"replay"`
	Commit      string `json:"commit,omitempty"`
	Line        string `json:"line,omitempty"` // the "fixed: property=… <commit> <what>" line for fixed entries
}

type findingsFile struct {
	Findings []Finding `json:"findings"`
}

// LoadFindings reads the committed known-findings file (never written at run time).
func LoadFindings(verifDir string) []Finding {
	b, err := os.ReadFile(filepath.Join(verifDir, "known_findings.json"))
	if err != nil {
		return nil
	}
	var ff findingsFile
	if err := json.Unmarshal(b, &ff); err != nil {
		panic("known_findings.json: " + err.Error())
	}
	return ff.Findings
}

// ViolationRec is a violation as reported to bin/check.
type ViolationRec struct {
	Fingerprint string `json:"fingerprint"`
	What        string `json:"what"`
	Replay      string `json:"replay"`
}

// Recorder accumulates what a run covered; bin/check merges the shards' files into the evidence.
type Recorder struct {
	mu    sync.Mutex
	env   *Env
	start time.Time
	known []Finding

	Level       string
	Rule        string
	Evals       int
	nt          map[string]struct{}
	ntCounted   int
	Classes     map[string]int
	Samples     []any
	maxSamples  int
	ExclKnown   map[string]int
	ExclConstr  map[string]int
	Inconcl     int
	Exhaustive  *bool
	Assumptions []string
	Violations  map[string]ViolationRec // by slot (kind), last one wins: the shrunk case
	KnownLines  []string
	Notes       []string
	Extra       map[string]any
}

// NewRecorder creates the recorder of one test process.
func NewRecorder(env *Env, level, rule string) *Recorder {
	return &Recorder{env: env, start: time.Now(), known: LoadFindings(env.VerifDir), Level: level, Rule: rule,
		nt: map[string]struct{}{}, Classes: map[string]int{}, ExclKnown: map[string]int{}, ExclConstr: map[string]int{},
		Violations: map[string]ViolationRec{}, Extra: map[string]any{}, maxSamples: 8}
}

// Eval counts one judged case.
func (r *Recorder) Eval() { r.mu.Lock(); r.Evals++; r.mu.Unlock() }

// EvalN counts n judged cases.
func (r *Recorder) EvalN(n int) { r.mu.Lock(); r.Evals += n; r.mu.Unlock() }

// NonTrivial records the canonical descriptor of a case that satisfies the non-triviality rule.
func (r *Recorder) NonTrivial(descr string) {
	h := Hash(descr)
	r.mu.Lock()
	r.nt[h] = struct{}{}
	r.mu.Unlock()
}

// NonTrivialDistinctN counts n non-trivial cases that are distinct by construction (complete
// enumerations), without hashing each of them.
func (r *Recorder) NonTrivialDistinctN(n int) { r.mu.Lock(); r.ntCounted += n; r.mu.Unlock() }

// Class counts a label of the generator's distribution.
func (r *Recorder) Class(name string) { r.ClassN(name, 1) }

// ClassN adds n to a label.
func (r *Recorder) ClassN(name string, n int) { r.mu.Lock(); r.Classes[name] += n; r.mu.Unlock() }

// Sample keeps a few actual cases. Sampling is positional (first few, then sparse) and
// deterministic.
func (r *Recorder) Sample(s any) {
	r.mu.Lock()
	defer r.mu.Unlock()
	if len(r.Samples) < r.maxSamples {
		r.Samples = append(r.Samples, s)
		return
	}
	// replace deterministically so that later cases are represented too
	n := r.Evals
	if n > 0 && n&(n-1) == 0 { // powers of two
		r.Samples[(n>>3)%r.maxSamples] = s
	}
}

// ExcludedByConstruction counts cases/constructs the generator avoided because of an open finding.
func (r *Recorder) ExcludedByConstruction(what string) {
	r.mu.Lock()
	r.ExclConstr[what]++
	r.mu.Unlock()
}

// Inconclusive counts a case that hit a time limit.
func (r *Recorder) Inconclusive() { r.mu.Lock(); r.Inconcl++; r.mu.Unlock() }

// Assume records an assumption (deduplicated).
func (r *Recorder) Assume(a string) {
	r.mu.Lock()
	defer r.mu.Unlock()
	for _, x := range r.Assumptions {
		if x == a {
			return
		}
	}
	r.Assumptions = append(r.Assumptions, a)
}

// SetExhaustive states that a finite space was enumerated completely.
func (r *Recorder) SetExhaustive(b bool) { r.mu.Lock(); r.Exhaustive = &b; r.mu.Unlock() }

// Fataler is the part of testing.T / rapid.T the recorder needs.
type Fataler interface {
	Fatalf(format string, args ...any)
}

// IsKnownOpen reports whether a fingerprint is listed as an open finding of this property.
func (r *Recorder) IsKnownOpen(fp string) bool {
	for _, f := range r.known {
		if f.Property == r.env.ID && f.Status == "open" && f.Fingerprint == fp {
			return true
		}
	}
	return false
}

// Report handles a verdict of the search tier. A failing case whose fingerprint is an open known
// finding is counted and the search continues (returns false); any other failure is saved as a
// replay archive and fails the test (so that rapid shrinks it; the last saved archive of a slot is
// the shrunk one).
func (r *Recorder) Report(t Fataler, v Verdict, c *Case) bool {
	if v.OK {
		return true
	}
	if v.Inconclusive {
		r.Inconclusive()
		return true
	}
	if strings.HasPrefix(v.Fingerprint, "harness|") {
		// a defect of the machinery itself is an infrastructure error (exit 2), never a violation
		r.Flush()
		t.Fatalf("HARNESS ERROR [%s]: %s", v.Fingerprint, v.What)
		return false
	}
	if r.IsKnownOpen(v.Fingerprint) {
		r.mu.Lock()
		r.ExclKnown[v.Fingerprint]++
		r.mu.Unlock()
		return false
	}
	c.Property = r.env.ID
	c.Fingerprint = v.Fingerprint
	c.What = v.What
	slot := c.Kind
	if slot == "" {
		slot = "case"
	}
	path := filepath.Join(r.env.FoundDir, fmt.Sprintf("%s-%s-seed%d-shard%d.txtar", r.env.ID, slot, r.env.Seed, r.env.Shard))
	if r.env.Replay != "" {
		path = r.env.Replay // re-judging an existing archive: nothing new to save
	} else if err := SaveCase(path, c); err != nil {
		path = "unsaved:" + err.Error()
	}
	r.mu.Lock()
	r.Violations[slot] = ViolationRec{Fingerprint: v.Fingerprint, What: v.What, Replay: path}
	r.mu.Unlock()
	r.Flush()
	t.Fatalf("VIOLATION %s [%s]: %s (replay %s)", r.env.ID, v.Fingerprint, v.What, path)
	return false
}

// ReplayTier re-judges every committed archive of the property: open findings print KNOWN-FINDING
// while they still fail; everything else (fixed findings, regression inputs) must pass.
func (r *Recorder) ReplayTier(judge func(*Case) Verdict) {
	if r.env.Shard != 0 {
		return
	}
	dir := filepath.Join(r.env.VerifDir, "replays", r.env.ID)
	ents, _ := os.ReadDir(dir)
	var names []string
	for _, e := range ents {
		if strings.HasSuffix(e.Name(), ".txtar") {
			names = append(names, e.Name())
		}
	}
	sort.Strings(names)
	open := map[string]Finding{}
	for _, f := range r.known {
		if f.Property == r.env.ID && f.Status == "open" {
			open[filepath.Base(f.Replay)] = f
		}
	}
	for _, n := range names {
		p := filepath.Join(dir, n)
		c, err := LoadCase(p)
		if err != nil {
			r.mu.Lock()
			r.Violations["replay:"+n] = ViolationRec{Fingerprint: "harness|bad-archive", What: err.Error(), Replay: p}
			r.mu.Unlock()
			continue
		}
		v := judge(c)
		r.mu.Lock()
		r.Classes["replayed-archives"]++
		r.mu.Unlock()
		f, isOpen := open[n]
		switch {
		case v.Inconclusive:
			r.Inconclusive()
		case isOpen && !v.OK:
			r.mu.Lock()
			r.KnownLines = append(r.KnownLines, fmt.Sprintf("KNOWN-FINDING: property=%s %s [%s]", r.env.ID, f.What, f.Fingerprint))
			r.mu.Unlock()
		case isOpen && v.OK:
			r.mu.Lock()
			r.Notes = append(r.Notes, "open finding no longer reproduces: "+n)
			r.mu.Unlock()
		case !v.OK:
			r.mu.Lock()
			r.Violations["replay:"+n] = ViolationRec{Fingerprint: v.Fingerprint, What: v.What, Replay: p}
			r.mu.Unlock()
		}
	}
}

type shardOut struct {
	Property    string                  `json:"property"`
	Tier        string                  `json:"tier"`
	Seed        uint64                  `json:"seed"`
	Shard       int                     `json:"shard"`
	Level       string                  `json:"level"`
	Rule        string                  `json:"rule"`
	Evals       int                     `json:"evaluations"`
	NT          []string                `json:"nontrivial_hashes"`
	NTCounted   int                     `json:"nontrivial_counted"`
	Classes     map[string]int          `json:"classes"`
	Samples     []any                   `json:"samples"`
	ExclKnown   map[string]int          `json:"excluded_known"`
	ExclConstr  map[string]int          `json:"excluded_by_construction"`
	Inconcl     int                     `json:"inconclusive"`
	Exhaustive  *bool                   `json:"exhaustive,omitempty"`
	Assumptions []string                `json:"assumptions"`
	Violations  map[string]ViolationRec `json:"violations"`
	KnownLines  []string                `json:"known_lines"`
	Notes       []string                `json:"notes"`
	Extra       map[string]any          `json:"extra"`
	WallS       float64                 `json:"wall_s"`
	Complete    bool                    `json:"complete"`
}

// Flush writes the shard file (idempotent; called on failure and at the end).
func (r *Recorder) Flush() { r.flush(false) }

// Done writes the shard file and marks the shard as having run to completion.
func (r *Recorder) Done() { r.flush(true) }

func (r *Recorder) flush(complete bool) {
	r.mu.Lock()
	defer r.mu.Unlock()
	o := shardOut{Property: r.env.ID, Tier: r.env.Tier, Seed: r.env.Seed, Shard: r.env.Shard, Level: r.Level, Rule: r.Rule,
		Evals: r.Evals, NTCounted: r.ntCounted, Classes: r.Classes, Samples: r.Samples, ExclKnown: r.ExclKnown, ExclConstr: r.ExclConstr,
		Inconcl: r.Inconcl, Exhaustive: r.Exhaustive, Assumptions: r.Assumptions, Violations: r.Violations,
		KnownLines: r.KnownLines, Notes: r.Notes, Extra: r.Extra, WallS: time.Since(r.start).Seconds(), Complete: complete}
	for h := range r.nt {
		o.NT = append(o.NT, h)
	}
	sort.Strings(o.NT)
	b, err := json.Marshal(o)
	if err != nil {
		panic(err)
	}
	tmp := r.env.OutFile + ".tmp"
	if err := os.WriteFile(tmp, b, 0o644); err == nil {
		_ = os.Rename(tmp, r.env.OutFile)
	}
}
