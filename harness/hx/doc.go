// Package hx holds the shared plumbing of the verification harness: run configuration, scratch
// modules, process execution, snapshots, replay archives and the evidence recorder.
package hx
