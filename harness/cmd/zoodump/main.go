// zoodump writes the standard zoo module (all fixed packages, no setup file) below a directory; development aid
// for probing convergen by hand:  go run ./cmd/zoodump /tmp/zoo
package main

import (
	"fmt"
	"os"

	"verif/hx"
	"verif/pg"
)

func main() {
	if len(os.Args) != 2 {
		fmt.Fprintln(os.Stderr, "usage: zoodump <dir>")
		os.Exit(2)
	}
	var files hx.Files
	for _, f := range (&pg.Prog{}).Files() {
		if f.Name != pg.SetupPath {
			files = append(files, f)
		}
	}
	if err := hx.WriteTree(os.Args[1], files); err != nil {
		fmt.Fprintln(os.Stderr, err)
		os.Exit(1)
	}
}
