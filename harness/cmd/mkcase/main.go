// mkcase builds a replay archive from hand-written files on top of the standard zoo module.
//
//	go run ./cmd/mkcase -prop C01 -kind program -o ../replays/C01/x.txtar [-meta '{"k":1}'] name=path ...
//
// Each name=path pair adds (or replaces) module file <name> with the content of <path>.
package main

import (
	"encoding/json"
	"flag"
	"fmt"
	"os"
	"strings"

	"verif/hx"
	"verif/pg"
)

func main() {
	prop := flag.String("prop", "", "property id")
	kind := flag.String("kind", "program", "case kind")
	out := flag.String("o", "", "output archive")
	meta := flag.String("meta", "", "JSON meta")
	what := flag.String("what", "", "description")
	bare := flag.Bool("bare", false, "do not add the zoo files")
	progMeta := flag.String("prog", "", "JSON file {\"prog\": <program model>, ...}: files are rendered from the model and the JSON becomes the meta")
	flag.Parse()
	var files hx.Files
	if *progMeta != "" {
		fs, raw, err := progFiles(*progMeta)
		if err != nil {
			fmt.Fprintln(os.Stderr, err)
			os.Exit(2)
		}
		files = fs
		*meta = string(raw)
		*bare = true
	}
	if !*bare {
		p := &pg.Prog{}
		for _, f := range p.Files() {
			if f.Name != pg.SetupPath {
				files = append(files, f)
			}
		}
	}
	for _, a := range flag.Args() {
		name, path, ok := strings.Cut(a, "=")
		if !ok {
			fmt.Fprintln(os.Stderr, "bad argument", a)
			os.Exit(2)
		}
		b, err := os.ReadFile(path)
		if err != nil {
			fmt.Fprintln(os.Stderr, err)
			os.Exit(2)
		}
		files = files.Set(name, string(b))
	}
	c := &hx.Case{Property: *prop, Kind: *kind, What: *what, Files: files}
	if *meta != "" {
		c.Meta = json.RawMessage(*meta)
	}
	if err := hx.SaveCase(*out, c); err != nil {
		fmt.Fprintln(os.Stderr, err)
		os.Exit(2)
	}
}
