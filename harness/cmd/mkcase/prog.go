package main

import (
	"encoding/json"
	"os"

	"verif/hx"
	"verif/pg"
)

// progFiles materialises the files of a program model given as JSON ({"prog": …}).
func progFiles(metaPath string) (hx.Files, []byte, error) {
	b, err := os.ReadFile(metaPath)
	if err != nil {
		return nil, nil, err
	}
	var m struct {
		Prog pg.Prog `json:"prog"`
	}
	if err := json.Unmarshal(b, &m); err != nil {
		return nil, nil, err
	}
	m.Prog.FixImports()
	return m.Prog.Files(), b, nil
}
