module verif

go 1.23

require (
	github.com/reedom/convergen v0.0.0
	golang.org/x/tools v0.24.0
	pgregory.net/rapid v1.3.0
)

require (
	github.com/matoous/go-nanoid v1.5.0 // indirect
	golang.org/x/mod v0.20.0 // indirect
	golang.org/x/sync v0.8.0 // indirect
)

replace github.com/reedom/convergen => /repo
