module verif

go 1.23

require (
	github.com/reedom/convergen v0.0.0
	golang.org/x/tools v0.24.0
	pgregory.net/rapid v1.3.0
)

replace github.com/reedom/convergen => /repo
