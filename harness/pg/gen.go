package pg

import (
	"fmt"
	"strings"

	"pgregory.net/rapid"
)

// Profile selects which dimensions a generator opens (DESIGN.md 3.5: composable profiles).
type Profile struct {
	MaxFields   int
	MaxPairs    int
	MaxMethods  int // per interface
	MaxIfaces   int
	Toggles     bool // draw :case/:getter/:stringer/:typecast/:match
	Shapes      bool // vary style / receiver / reverse / error / extras / pointer-ness
	Notations   bool // explicit :skip/:map/:conv/:literal
	Hooks       bool // :preprocess / :postprocess
	ExtStructs  bool // structs declared in the imported package
	NonASCII    bool // rare non-ASCII field names
	Docs        bool // doc comments on methods / interfaces
	OnlyKinds   []string
	ExcludeKind map[string]bool // type kinds avoided by construction (open findings)
	LongNames   bool            // keep interface bodies >= 21 bytes (finding #6) - until fixed
	HookHeavy   bool            // hooks on most methods (C10)
	ErrHeavy    bool            // favour error results, error converters, error getters and error hooks (C07)
}

var fieldNames = []string{"_", "Value", "Named", "IDs", "ID", "Name", "Status", "Val", "Cat", "Score", "Tags", "Items", "Nested", "Count", "Flag", "Data", "Id", "id", "name", "NAME", "val", "Ptr", "Extra", "Zed"}

// foldPairs: equal under strings.EqualFold, different byte lengths (long s, Kelvin sign, capital sharp s, Angstrom sign, Ohm sign)
var foldPairs = [][2]string{{"ſet", "SET"}, {"\u212aelvin", "kelvin"}, {"Ma\u00df", "MA\u1e9e"}, {"\u212bre", "\u00e5re"}, {"\u2126hm", "\u03c9hm"}}

var nonASCIINames = []string{"Ünit", "ünit", "Kelvin", "Kelvin", "ſet", "Set"}

// groupOf maps a type kind to its conversion-relation group.
func groupOf(kind string) string {
	switch {
	case strings.HasPrefix(kind, "basic"), strings.HasPrefix(kind, "named-basic"), strings.HasPrefix(kind, "stringer"):
		return "scalar"
	case strings.HasPrefix(kind, "pointer-struct"):
		return "pstruct"
	case strings.HasPrefix(kind, "pointer"):
		return "pointer"
	case strings.HasPrefix(kind, "struct"):
		return "struct"
	case strings.HasPrefix(kind, "slice"):
		return "slice"
	case kind == "interface" || kind == "error":
		return "iface"
	}
	return kind
}

func (pf Profile) atoms(needExt bool) []TypeAtom {
	var out []TypeAtom
	for _, a := range Alphabet {
		if needExt && a.Ext == "" {
			continue
		}
		if pf.ExcludeKind[a.Kind] {
			continue
		}
		if len(pf.OnlyKinds) > 0 {
			ok := false
			for _, k := range pf.OnlyKinds {
				if strings.HasPrefix(a.Kind, k) {
					ok = true
				}
			}
			if !ok {
				continue
			}
		}
		out = append(out, a)
	}
	return out
}

func exportName(n string) string {
	rs := []rune(n)
	up := strings.ToUpper(string(rs[0]))
	return up + string(rs[1:])
}

func unexportName(n string) string {
	rs := []rune(n)
	return strings.ToLower(string(rs[0])) + string(rs[1:])
}

func isExportedName(n string) bool {
	return n != "" && strings.ToUpper(n[:1]) == n[:1] && strings.ToLower(n[:1]) != n[:1] || strings.HasPrefix(n, "Ü") || strings.HasPrefix(n, "K")
}

// GenStructPair draws a source and a destination struct that share most field names.
func GenStructPair(t *rapid.T, pf Profile, idx int) (src, dst StructDecl) {
	src = StructDecl{Pkg: "home", Name: fmt.Sprintf("S%d", idx)}
	dst = StructDecl{Pkg: "home", Name: fmt.Sprintf("D%d", idx)}
	if pf.ExtStructs {
		if rapid.IntRange(0, 3).Draw(t, "srcExt") == 0 {
			src.Pkg = "ext"
			src.Name = "X" + src.Name
		}
		if rapid.IntRange(0, 3).Draw(t, "dstExt") == 0 {
			dst.Pkg = "ext"
			dst.Name = "X" + dst.Name
		}
	}
	needExt := src.Pkg == "ext" || dst.Pkg == "ext"
	atoms := pf.atoms(needExt)
	byGroup := map[string][]TypeAtom{}
	for _, a := range atoms {
		byGroup[groupOf(a.Kind)] = append(byGroup[groupOf(a.Kind)], a)
	}
	names := fieldNames
	if pf.NonASCII {
		names = append(append([]string{}, fieldNames...), nonASCIINames...)
	}
	usedS, usedD := map[string]bool{}, map[string]bool{}
	addS := func(f Field) bool {
		if usedS[f.Name] {
			return false
		}
		usedS[f.Name] = true
		src.Fields = append(src.Fields, f)
		return true
	}
	addD := func(f Field) bool {
		if usedD[f.Name] {
			return false
		}
		usedD[f.Name] = true
		dst.Fields = append(dst.Fields, f)
		return true
	}
	mk := func(name string, a TypeAtom) Field { return Field{Name: name, Home: a.Home, Ext: a.Ext, Kind: a.Kind} }
	n := rapid.IntRange(1, pf.MaxFields).Draw(t, "nfields")
	for i := 0; i < n; i++ {
		name := rapid.SampledFrom(names).Draw(t, "fname")
		a := rapid.SampledFrom(atoms).Draw(t, "ftype")
		if name == "_" {
			// a blank field on both sides: it can be neither read nor written
			addS(mk(name, a))
			addD(mk(name, a))
			continue
		}
		switch k := rapid.IntRange(0, 99).Draw(t, "slot"); {
		case k < 35: // same name, same type
			addS(mk(name, a))
			addD(mk(name, a))
		case k < 60: // same name, related type
			g := byGroup[groupOf(a.Kind)]
			b := rapid.SampledFrom(g).Draw(t, "rel")
			addS(mk(name, a))
			addD(mk(name, b))
		case k < 68: // same name, unrelated type
			b := rapid.SampledFrom(atoms).Draw(t, "other")
			addS(mk(name, a))
			addD(mk(name, b))
		case k < 76: // names differ in case only
			other := name
			if strings.ToUpper(name) != name {
				other = strings.ToUpper(name)
			} else {
				other = exportName(strings.ToLower(name))
			}
			if pf.NonASCII && rapid.IntRange(0, 3).Draw(t, "foldPair") == 0 {
				// spellings that are equal under Unicode case folding but differ in their UTF-8 length
				fp := rapid.SampledFrom(foldPairs).Draw(t, "foldPairV")
				name, other = fp[0], fp[1]
				if rapid.Bool().Draw(t, "foldSwap") {
					name, other = other, name
				}
				if usedS[name] || usedD[other] {
					continue
				}
			}
			addS(mk(name, a))
			addD(mk(other, a))
		case k < 79: // embedded member (same or related struct on both sides)
			emb := []TypeAtom{}
			for _, e := range byGroup["struct"] {
				if !strings.HasPrefix(e.Home, "struct{") {
					emb = append(emb, e)
				}
			}
			if len(emb) == 0 {
				continue
			}
			e1 := rapid.SampledFrom(emb).Draw(t, "emb1")
			e2 := e1
			if rapid.Bool().Draw(t, "embDiff") {
				e2 = rapid.SampledFrom(emb).Draw(t, "emb2")
			}
			en := func(a TypeAtom) string { h := a.Home; return h[strings.LastIndex(h, ".")+1:] }
			if usedS[en(e1)] || usedD[en(e2)] {
				continue
			}
			usedS[en(e1)], usedD[en(e2)] = true, true
			src.Fields = append(src.Fields, Field{Name: "", Home: e1.Home, Ext: e1.Ext, Kind: "embedded:" + e1.Kind})
			dst.Fields = append(dst.Fields, Field{Name: "", Home: e2.Home, Ext: e2.Ext, Kind: "embedded:" + e2.Kind})
		case k < 81: // a Stringer on the source side (value or pointer receiver, field or getter) and a string on the other
			var strs, dsts []TypeAtom
			for _, x := range atoms {
				if strings.HasPrefix(x.Kind, "stringer") {
					strs = append(strs, x)
				}
				switch x.Home {
				case "string", "LStr", "ext.MyStr", "interface{}":
					dsts = append(dsts, x)
				}
			}
			if len(strs) == 0 || len(dsts) == 0 {
				continue
			}
			sa := rapid.SampledFrom(strs).Draw(t, "strSrc")
			da := rapid.SampledFrom(dsts).Draw(t, "strDst")
			if rapid.Bool().Draw(t, "strViaGetter") {
				back := unexportName(name) + "_"
				gname := exportName(name)
				if usedS[back] || usedS[gname] {
					continue
				}
				typ := sa.Home
				if src.Pkg == "ext" {
					typ = sa.Ext
				}
				addS(mk(back, sa))
				usedS[gname] = true
				src.Getters = append(src.Getters, Getter{Name: gname, Field: back, Type: typ, PtrRecv: rapid.Bool().Draw(t, "strGetterPtr")})
				addD(mk(gname, da))
			} else {
				addS(mk(name, sa))
				addD(mk(name, da))
			}
		case k < 82: // structs nested two levels deep (three-segment destination paths), local types only
			if needExt {
				continue
			}
			deepT := []TypeAtom{{"LDeep", "", "struct-local-deep"}, {"LDeep2", "", "struct-local-deep"}}
			addS(mk(name, rapid.SampledFrom(deepT).Draw(t, "deepS")))
			addD(mk(name, rapid.SampledFrom(deepT).Draw(t, "deepD")))
		case k == 82 || k == 83: // targeted pairs (each reaches a construct that random atoms practically never combine)
			if needExt {
				continue
			}
			at := func(home, kind string) TypeAtom { return TypeAtom{Home: home, Kind: kind} }
			switch rapid.IntRange(0, 4).Draw(t, "targeted") {
			case 4:
				// a struct behind a getter whose member's member is reached by a pointer-receiver getter only
				if usedS["line_"] || usedS["Line"] || usedD["Line"] {
					continue
				}
				addS(mk("line_", at("LLine", "struct-local")))
				usedS["Line"] = true
				src.Getters = append(src.Getters, Getter{Name: "Line", Field: "line_", Type: "LLine", PtrRecv: rapid.Bool().Draw(t, "linePtrRecv")})
				addD(mk("Line", at("LLineD", "struct-local")))
			case 3:
				// slices of a type the home package imports only through ext
				addS(mk(name, at("ext.Trail", "struct-imported-with-indirect-slices")))
				addD(mk(name, at(rapid.SampledFrom([]string{"ext.Trail2", "ext.Trail2", "ext.Trail"}).Draw(t, "trailD"), "struct-imported-with-indirect-slices")))
			case 2:
				// element conversion into a type of a package imported as "e" (under :typecast the loop reads e.Code(<element>))
				if rapid.Bool().Draw(t, "aliasE") {
					addS(mk(name, at("[]int", "slice-basic")))
					addD(mk(name, at("[]e.Code", "slice-named-layout-alias-like-loop-variable")))
				} else {
					addS(mk(name, at("[]string", "slice-basic")))
					addD(mk(name, at("[]e.Label", "slice-named-layout-alias-like-loop-variable")))
				}
			case 0:
				// a field whose name is a string prefix of another field's name; the longer one is a struct of an
				// imported type with unexported members, same type on both sides (copied as a whole)
				whole := rapid.SampledFrom([]string{"ext.Inner", "oh.Rec", "ext.Cat", "ext.Hidden", "ext.WithAnon"}).Draw(t, "wholeT")
				addS(mk("Val", at("int", "basic")))
				addD(mk("Val", at("int", "basic")))
				addS(mk("Value", at(whole, "struct-imported")))
				addD(mk("Value", at(whole, "struct-imported")))
			default:
				// a local struct type named like a type of a package that is only reached through another
				// imported type, both copied member by member in the same method
				first := rapid.Bool().Draw(t, "indirectFirst")
				add := func(local bool) {
					if local {
						addS(mk("Stamp", at("Stamp", "struct-local-same-name-as-indirect")))
						addD(mk("Stamp", at("Stamp2", "struct-local-same-name-as-indirect")))
					} else {
						addS(mk("Rec", at("ext.Record", "struct-imported-with-indirect-member")))
						addD(mk("Rec", at("ext.Record2", "struct-imported-with-indirect-member")))
					}
				}
				add(first)
				add(!first)
			}
		case k < 84: // source only
			addS(mk(name, a))
		case k < 90: // destination only
			addD(mk(name, a))
		default: // getter-backed: unexported source member + getter named like the destination field
			back := unexportName(name) + "_"
			gname := exportName(name)
			if usedS[back] || usedS[gname] {
				continue
			}
			typ := a.Home
			if src.Pkg == "ext" {
				typ = a.Ext
			}
			g := Getter{Name: gname, Field: back, Type: typ, PtrRecv: rapid.IntRange(0, 3).Draw(t, "gptr") == 0}
			if rapid.IntRange(0, 9).Draw(t, "gerr") == 0 || pf.ErrHeavy && rapid.IntRange(0, 2).Draw(t, "gerrHeavy") == 0 {
				g.RetErr = true
				g.RetConcreteErr = rapid.IntRange(0, 3).Draw(t, "gerrConcrete") == 0
			}
			addS(mk(back, a))
			usedS[gname] = true
			src.Getters = append(src.Getters, g)
			dn := gname
			if rapid.IntRange(0, 4).Draw(t, "gcase") == 0 {
				dn = strings.ToUpper(gname)
			}
			da := a
			if rapid.IntRange(0, 2).Draw(t, "grel") == 0 {
				da = rapid.SampledFrom(byGroup[groupOf(a.Kind)]).Draw(t, "gdst")
			}
			addD(mk(dn, da))
		}
	}
	if len(dst.Fields) == 0 {
		addD(mk("Only", atoms[0]))
	}
	if len(src.Fields) == 0 {
		addS(mk("Only", atoms[0]))
	}
	// a struct that has a member named like one of its getters does not compile
	for _, g := range src.Getters {
		for i := range src.Fields {
			if src.Fields[i].Name == g.Name {
				src.Fields[i].Name = g.Name + "F"
			}
		}
	}
	return
}

func (s StructDecl) homeRef() string {
	if s.Pkg == "ext" {
		return "ext." + s.Name
	}
	return s.Name
}

// "i" and "e" are the names the generated slice loops use for index and element: a declared operand name must survive them
// "_" is a legal parameter name too: the source cannot be read through it, so the function needs a name of its own (or the
// method is refused)
var paramNames = []string{"in", "from", "s", "p", "e", "i", "_"}
var resultNames = []string{"out", "to", "d", "res", "e", "i"}
var extraTypes = []string{"int", "string", "LInt", "*LInner", "ext.MyInt", "[]int", "bool", "[]LInt", "map[string]ext.MyInt", "[]*ext.Inner", "func(LInt) ext.MyInt", "*ext.Inner", "*LInner", "LInner", "*ext.Cat", "*LNode", "[]LNode"}

// GenShape draws the shape dimensions of a method (only legal combinations; C08 enumerates the
// illegal ones separately).
func GenShape(t *rapid.T, m *Method, srcLocal bool) {
	m.SrcPtr = rapid.IntRange(0, 3).Draw(t, "srcPtr") != 0
	m.DstPtr = rapid.IntRange(0, 3).Draw(t, "dstPtr") != 0
	m.RetErr = rapid.IntRange(0, 2).Draw(t, "retErr") == 0
	if rapid.IntRange(0, 2).Draw(t, "style") == 0 {
		m.Opts.Style = "arg"
	}
	if srcLocal && rapid.IntRange(0, 3).Draw(t, "recv") == 0 {
		m.Recv = rapid.SampledFrom([]string{"r", "x", "me", "my_r", "r2", "_r", "\u00fcber"}).Draw(t, "recvName")
	}
	if m.Opts.Style == "arg" && rapid.IntRange(0, 4).Draw(t, "reverse") == 0 {
		m.Reverse = true
	}
	if !m.Reverse {
		ne := rapid.IntRange(0, 5).Draw(t, "nextras")
		if ne > 3 {
			ne = 0
		}
		for i := 0; i < ne; i++ {
			m.Extras = append(m.Extras, Param{Type: rapid.SampledFrom(extraTypes).Draw(t, "extraType")})
		}
	}
	if rapid.IntRange(0, 3).Draw(t, "named") == 0 {
		m.SrcName = rapid.SampledFrom(paramNames).Draw(t, "srcName")
		for i := range m.Extras {
			m.Extras[i].Name = fmt.Sprintf("x%d", i)
		}
	}
	if rapid.IntRange(0, 5).Draw(t, "namedRes") == 0 {
		m.DstName = rapid.SampledFrom(resultNames).Draw(t, "dstName")
		if m.DstName == m.SrcName || m.DstName == m.Recv {
			m.DstName = "out"
		}
	}
}

// GenToggles draws method- or interface-level toggles.
func GenToggles(t *rapid.T, label string) Toggles {
	var g Toggles
	tri := func(name string, pOn int) Tri {
		switch k := rapid.IntRange(0, 9).Draw(t, label+name); {
		case k < pOn:
			return 1
		case k == 9:
			return 2
		}
		return 0
	}
	g.Case = Tri(0)
	switch rapid.IntRange(0, 9).Draw(t, label+"case") {
	case 0, 1:
		g.Case = 2 // :case:off
	case 2:
		g.Case = 1
	}
	g.Getter = tri("getter", 4)
	g.Stringer = tri("stringer", 4)
	g.Typecast = tri("typecast", 5)
	if rapid.IntRange(0, 19).Draw(t, label+"match") == 0 {
		g.Match = "none"
	}
	return g
}

// LiteralFor returns a literal expression that is well-typed for a field of the given type
// (home-context expression), or "" when the table has none.
func LiteralFor(home string) string {
	switch home {
	case "int", "int64", "int32", "uint8", "float64", "LInt", "ext.MyInt", "LStatus", "ext.Status", "LPStatus", "ext.PStatus", "LFlt":
		return "7"
	case "string", "LStr", "ext.MyStr":
		return `"lit costs US$5, $1 ${x} $$ %d"`
	case "bool":
		return "true"
	case "LInner":
		return "LInner{A: 5}"
	case "ext.Inner":
		return "ext.Inner{A: 5}"
	case "[]int":
		return "[]int{1, 2}"
	case "[]string":
		return `[]string{"a b"}`
	case "interface{}":
		return "42"
	case "map[string]int":
		return `map[string]int{"k": 1}`
	}
	if strings.HasPrefix(home, "*") || strings.HasPrefix(home, "[]") || strings.HasPrefix(home, "map[") || home == "error" ||
		strings.HasPrefix(home, "func") || strings.HasPrefix(home, "chan") || home == "LStringer" || home == "ext.Named" || home == "LFunc" || home == "LIDs" || home == "ext.IDs" {
		return "nil"
	}
	return ""
}

// member describes a path that can be written in a notation.
type member struct {
	Path string // e.g. "Nested.A" or "Name()" or "$2"
	Home string // type in home context
}

// knownMembers lists the accessible members of the zoo's struct types from the home package
// (fields and plain getters), used to build nested notation paths.
func knownMembers(home string, forSource bool) []member {
	var ms []member
	switch home {
	case "LInner", "*LInner":
		ms = []member{{"A", "int"}, {"B", "string"}, {"c", "int"}, {"D", "LInt"}}
		if forSource {
			ms = append(ms, member{"C()", "int"})
			if home == "*LInner" {
				ms = append(ms, member{"PB()", "string"})
			}
		}
	case "LInner2", "*LInner2":
		ms = []member{{"A", "int64"}, {"B", "LStr"}, {"c", "int"}, {"D", "int"}}
	case "ext.Inner", "*ext.Inner":
		ms = []member{{"A", "int"}, {"B", "string"}, {"D", "ext.MyInt"}}
		if forSource {
			ms = append(ms, member{"C()", "int"})
			if home == "*ext.Inner" {
				ms = append(ms, member{"PB()", "string"})
			}
		}
	case "ext.Inner2", "*ext.Inner2":
		ms = []member{{"A", "int64"}, {"B", "ext.MyStr"}, {"D", "int"}}
	case "LDeep":
		ms = []member{{"X", "int"}, {"N", "LInt"}, {"In", "LInner"}}
		for _, k := range knownMembers("LInner", forSource) {
			ms = append(ms, member{"In." + k.Path, k.Home})
		}
	case "LDeep2":
		ms = []member{{"X", "int64"}, {"N", "int"}, {"In", "LInner2"}}
		for _, k := range knownMembers("LInner2", forSource) {
			ms = append(ms, member{"In." + k.Path, k.Home})
		}
	case "LWithAnon":
		ms = []member{{"N", "int"}, {"Anon.x", "int"}, {"Anon.Y", "string"}}
	case "LWithAnon2":
		ms = []member{{"N", "int64"}, {"Anon.x", "int"}, {"Anon.Y", "string"}}
	case "LTwin":
		ms = []member{{"A", "int"}, {"B", "string"}, {"c", "int"}, {"D", "LInt"}}
	case "ext.InnerTwin":
		ms = []member{{"A", "int"}, {"B", "string"}, {"D", "ext.MyInt"}}
	case "Stamp":
		ms = []member{{"At", "int"}, {"rev", "int"}}
	case "Stamp2":
		ms = []member{{"At", "int64"}, {"rev", "int"}}
	case "ext.Trail":
		ms = []member{{"N", "int"}}
	case "ext.Trail2":
		ms = []member{{"N", "int64"}}
	case "ext.Record":
		ms = []member{{"N", "int"}, {"Stamp.At", "int"}}
	case "ext.Record2":
		ms = []member{{"N", "int"}, {"Stamp.At", "int64"}}
	case "LInnerG", "ext.InnerG":
		ms = []member{{"A", "int"}, {"C", "int"}, {"PB", "string"}}
	case "oh.Rec":
		ms = []member{{"A", "int"}, {"B", "string"}}
	case "oh.Rec2":
		ms = []member{{"A", "int64"}, {"B", "string"}}
	case "LForeign":
		ms = []member{{"A", "int"}, {"B", "string"}, {"D", "ext.MyInt"}}
	case "ext.Cat", "*ext.Cat":
		ms = []member{{"Name", "string"}}
		if forSource {
			ms = append(ms, member{"ID()", "int"}, member{"PName()", "string"})
		}
	}
	return ms
}

// errGetterMembers lists (T, error) getters usable as the last segment of a :map source.
func errGetterMembers(s StructDecl) []member {
	var ms []member
	for _, g := range s.Getters {
		if !g.RetErr {
			continue
		}
		th := g.Type
		for _, f := range s.Fields {
			if f.Name == g.Field {
				th = f.Home
			}
		}
		ms = append(ms, member{g.Name + "()", th})
	}
	for _, f := range s.Fields {
		if s.Pkg == "ext" && !isExportedName(f.Name) || f.Name == "" {
			continue
		}
		switch f.Home {
		case "LInner", "*LInner", "ext.Inner", "*ext.Inner":
			ms = append(ms, member{f.Name + ".E()", "int"})
		}
		switch f.Home {
		case "LInner", "*LInner":
			ms = append(ms, member{f.Name + ".CE()", "int"})
		}
	}
	return ms
}

func structMembers(s StructDecl, forSource bool, nested bool) []member {
	var ms []member
	for _, f := range s.Fields {
		fname := f.Name
		if fname == "" { // embedded: the member is named after its type
			fname = strings.TrimPrefix(f.Home[strings.LastIndex(f.Home, ".")+1:], "*")
		}
		if s.Pkg == "ext" && !isExportedName(fname) || fname == "_" {
			continue
		}
		ms = append(ms, member{fname, f.Home})
		if nested {
			if forSource || !strings.HasPrefix(f.Home, "*") {
				for _, k := range knownMembers(f.Home, forSource) {
					ms = append(ms, member{fname + "." + k.Path, k.Home})
				}
			}
		}
	}
	if forSource {
		for _, g := range s.Getters {
			if g.RetErr {
				continue
			}
			th := g.Type
			// the getter's type is written in the declaring package's context; recover the home form
			for _, f := range s.Fields {
				if f.Name == g.Field {
					th = f.Home
				}
			}
			ms = append(ms, member{g.Name + "()", th})
			if nested {
				// chains through the getter's result (a value: pointer-receiver methods are not callable on it)
				for _, k := range knownMembers(th, true) {
					ms = append(ms, member{g.Name + "()." + k.Path, k.Home})
				}
			}
		}
	}
	return ms
}

// UserFuncs accumulates generated converter and hook declarations (home/funcs.go).
type UserFuncs struct {
	sb    strings.Builder
	setup strings.Builder // declarations that live in the setup file itself (carried over into the output)
	// ToSetup: the next declaration goes into the setup file instead of home/funcs.go
	ToSetup bool
	// one-shot knobs for the next hook (see HookN)
	NextAsVar, NextConcreteErr bool
	// NextAsType declares the next "hook" as a defined func TYPE of the fitting signature (naming a type where a
	// function is wanted: must be refused, `T(dst, src)` is a conversion)
	NextAsType bool
	n          int
	// RetVars lists the package-level variables that hold the results of generated converters; the
	// behavioural driver fills them with random values.
	RetVars []string
}

// Converter declares "func cvN(x T) U" (or with error) and returns its name.
func (u *UserFuncs) Converter(argType, retType string, retErr, ptrArg bool) string {
	u.n++
	name := fmt.Sprintf("cv%d", u.n)
	rv := "ret_" + name
	u.RetVars = append(u.RetVars, rv)
	at := argType
	if ptrArg {
		at = "*" + argType
	}
	out := &u.sb
	if u.ToSetup {
		out = &u.setup
	}
	fmt.Fprintf(out, "var %s %s\n\n", rv, retType)
	if retErr {
		fmt.Fprintf(out, "func %s(x %s) (%s, error) { tr.Arg(%q, x); err := tr.HitE(%q); return %s, err }\n\n", name, at, retType, name, name, rv)
	} else {
		fmt.Fprintf(out, "func %s(x %s) %s { tr.Arg(%q, x); tr.Hit(%q); return %s }\n\n", name, at, retType, name, name, rv)
	}
	return name
}

// Hook declares a pre/postprocess function and returns its name.
func (u *UserFuncs) Hook(kind string, dstType string, dstPtr bool, srcType string, srcPtr bool, extras []Param, retErr bool) string {
	return u.HookN(kind, dstType, dstPtr, srcType, srcPtr, extras, retErr, false)
}

// HookN: twoResults declares the hook as returning (int, error), which no method can accommodate. Two one-shot
// knobs of UserFuncs shape the next hook: NextAsVar declares it as a package-level variable of function type (the tool
// accepts those), NextConcreteErr makes it return *tr.E, a concrete type that implements error (not the documented
// "no result, or error": must be refused - a nil *tr.E stored in an error is not nil).
func (u *UserFuncs) HookN(kind string, dstType string, dstPtr bool, srcType string, srcPtr bool, extras []Param, retErr, twoResults bool) string {
	u.n++
	name := fmt.Sprintf("%s%d", kind, u.n)
	dt, st := dstType, srcType
	if dstPtr {
		dt = "*" + dt
	}
	if srcPtr {
		st = "*" + st
	}
	var ps, as strings.Builder
	fmt.Fprintf(&ps, "d %s, s %s", dt, st)
	as.WriteString("d, s")
	for i, e := range extras {
		fmt.Fprintf(&ps, ", e%d %s", i, e.Type)
		fmt.Fprintf(&as, ", e%d", i)
	}
	out := &u.sb
	if u.ToSetup {
		out = &u.setup
	}
	decl := "func " + name + "("
	if u.NextAsVar {
		decl = "var " + name + " = func("
	}
	asVar, concrete := u.NextAsVar, u.NextConcreteErr
	asType := u.NextAsType
	u.NextAsVar, u.NextConcreteErr, u.NextAsType = false, false, false
	_ = asVar
	if asType {
		res := ""
		if retErr {
			res = " error"
		}
		fmt.Fprintf(out, "type %s func(%s)%s\n\n", name, ps.String(), res)
		return name
	}
	if twoResults {
		fmt.Fprintf(out, "%s%s) (int, error) { tr.Arg(%q, %s); return 0, tr.HitE(%q) }\n\n", decl, ps.String(), name, as.String(), name)
	} else if concrete {
		fmt.Fprintf(out, "%s%s) *tr.E { tr.Arg(%q, %s); tr.Hit(%q); return nil }\n\n", decl, ps.String(), name, as.String(), name)
	} else if retErr {
		fmt.Fprintf(out, "%s%s) error { tr.Arg(%q, %s); return tr.HitE(%q) }\n\n", decl, ps.String(), name, as.String(), name)
	} else {
		fmt.Fprintf(out, "%s%s) { tr.Arg(%q, %s); tr.Hit(%q) }\n\n", decl, ps.String(), name, as.String(), name)
	}
	return name
}

func (u *UserFuncs) String() string { return u.sb.String() }

// Setup returns the declarations meant for the setup file.
func (u *UserFuncs) Setup() string { return u.setup.String() }

// GenNotations adds explicit notations that are well-formed for the struct pair.
func GenNotations(t *rapid.T, m *Method, src, dst StructDecl, uf *UserFuncs, pf Profile) {
	// in a reversed method the copy goes from the declared destination type to the declared source type
	from, to := src, dst
	if m.Reverse {
		from, to = dst, src
	}
	dms := structMembers(to, false, true)
	sms := structMembers(from, true, true)
	if pf.ErrHeavy {
		egs := errGetterMembers(from)
		sms = append(sms, egs...)
		sms = append(sms, egs...)
	} else {
		// (T, error) getters as sources of :map / :conv in every profile (a :conv fed from one ends as "no match",
		// with its warning)
		sms = append(sms, errGetterMembers(from)...)
	}
	if len(dms) == 0 || len(sms) == 0 {
		return
	}
	if pf.ErrHeavy && !m.Reverse && errExtra(m.Extras) < 0 && len(m.Extras) < 3 && rapid.IntRange(0, 2).Draw(t, "addErrExtra") == 0 {
		// an additional argument whose type has the (T, error) getter E(): "$n.E()" sources, with and without error result
		e := Param{Type: rapid.SampledFrom([]string{"*LInner", "*ext.Inner", "LInner"}).Draw(t, "errExtraType")}
		if m.SrcName != "" {
			e.Name = fmt.Sprintf("x%d", len(m.Extras))
		}
		m.Extras = append(m.Extras, e)
	}
	n := rapid.IntRange(0, 4).Draw(t, "nnotes")
	var deep []member
	for _, d := range dms {
		if strings.Count(d.Path, ".") >= 2 {
			deep = append(deep, d)
		}
	}
	for i := 0; i < n; i++ {
		d := rapid.SampledFrom(dms).Draw(t, "ndst")
		if len(deep) > 0 && rapid.IntRange(0, 2).Draw(t, "deepDst") == 0 {
			d = rapid.SampledFrom(deep).Draw(t, "ndeep")
		}
		switch k := rapid.IntRange(0, 9).Draw(t, "nkind"); {
		case k < 2:
			if rapid.IntRange(0, 2).Draw(t, "re") == 0 {
				first := strings.Split(d.Path, ".")[0]
				pre := first
				if len(pre) > 2 {
					pre = pre[:2]
				}
				m.Notes = append(m.Notes, Notation{"skip", []string{"/^" + pre + "/"}})
			} else {
				m.Notes = append(m.Notes, Notation{"skip", []string{d.Path}})
			}
		case k < 5:
			// prefer a source of the same type
			var same []member
			for _, s := range sms {
				if s.Home == d.Home {
					same = append(same, s)
				}
			}
			s := rapid.SampledFrom(sms).Draw(t, "msrc")
			if len(same) > 0 && rapid.IntRange(0, 3).Draw(t, "sameT") != 0 {
				s = rapid.SampledFrom(same).Draw(t, "msrcSame")
			}
			dollarOneOdds := 5
			if strings.Contains(d.Path, ".") {
				dollarOneOdds = 2
			}
			if rapid.IntRange(0, dollarOneOdds).Draw(t, "dollarOne") == 0 {
				// "$1" is the source operand itself, at every nesting depth of the destination
				m.Notes = append(m.Notes, Notation{"map", []string{"$1." + s.Path, d.Path}})
			} else if k := errExtra(m.Extras); pf.ErrHeavy && k >= 0 && rapid.IntRange(0, 1).Draw(t, "tmplErrGetter") == 0 {
				// a (T, error) getter of an additional argument: wired in with an error check, or - in a method without
				// error result - not at all
				dd := d
				var ints, exact []member
				for _, x := range dms {
					switch x.Home {
					case "int", "interface{}":
						exact = append(exact, x) // E() returns an int: these take it as it is
						ints = append(ints, x)
					case "int64", "LInt", "ext.MyInt":
						ints = append(ints, x)
					}
				}
				if len(exact) > 0 && rapid.IntRange(0, 3).Draw(t, "tmplErrGetterExact") != 0 {
					ints = exact
				}
				if len(ints) > 0 {
					dd = rapid.SampledFrom(ints).Draw(t, "tmplErrGetterDst") // E() returns an int
				}
				m.Notes = append(m.Notes, Notation{"map", []string{fmt.Sprintf("$%d.E()", k+2), dd.Path}})
			} else if len(m.Extras) > 0 && rapid.IntRange(0, 2).Draw(t, "tmpl") == 0 {
				ei := rapid.IntRange(0, len(m.Extras)-1).Draw(t, "ei")
				arg := fmt.Sprintf("$%d", ei+2)
				// a member of the additional argument: field, getter, pointer-receiver getter, (T, error) getter as the
				// last segment, and members the home package cannot see (must end as "no match")
				if ms := knownMembers(m.Extras[ei].Type, true); len(ms) > 0 && rapid.IntRange(0, 2).Draw(t, "tmplMember") != 0 {
					paths := []string{}
					for _, k := range ms {
						paths = append(paths, k.Path)
					}
					switch m.Extras[ei].Type {
					case "*LInner", "*ext.Inner":
						paths = append(paths, "E()", "E()", "c", "hid()", "PB()", "C()")
					}
					arg += "." + rapid.SampledFrom(paths).Draw(t, "tmplPath")
				}
				m.Notes = append(m.Notes, Notation{"map", []string{arg, d.Path}})
			} else {
				m.Notes = append(m.Notes, Notation{"map", []string{s.Path, d.Path}})
			}
		case k < 8:
			s := rapid.SampledFrom(sms).Draw(t, "csrc")
			retErr := m.RetErr && rapid.IntRange(0, 1).Draw(t, "cerr") == 0
			if pf.ErrHeavy {
				// also on methods without error result: such a converter must not be wired in (C07)
				retErr = rapid.IntRange(0, 3).Draw(t, "cerrHeavy") != 0
			}
			// a converter that takes a pointer to the source's type (also a pointer to a pointer)
			ptrArg := !strings.HasSuffix(s.Path, "()") && rapid.IntRange(0, 5).Draw(t, "cptr") == 0
			uf.ToSetup = rapid.IntRange(0, 2).Draw(t, "convInSetup") == 0
			argT := s.Home
			if twin, ok := map[string]string{"[]int": "LIDs", "func(int) int": "LFunc", "LIDs": "[]int"}[s.Home]; ok && rapid.IntRange(0, 2).Draw(t, "cptrTwin") == 0 {
				// a pointer to a type the field is assignable to but not identical with: &field does not fit
				argT, ptrArg = twin, true
			}
			name := ""
			if s.Home == "int" && d.Home == "string" && !strings.HasSuffix(s.Path, "()") && rapid.IntRange(0, 1).Draw(t, "zooConv") == 0 {
				// a converter of the zoo: qualified (ext.IntToStr) or, through the setup file's dot import, unqualified
				name = rapid.SampledFrom([]string{"DotIntToStr", "DotIntToStr", "ext.IntToStr"}).Draw(t, "zooConvName")
			} else {
				name = uf.Converter(argT, d.Home, retErr, ptrArg)
			}
			if s.Path == d.Path && rapid.Bool().Draw(t, "omitDst") {
				m.Notes = append(m.Notes, Notation{"conv", []string{name, s.Path}})
			} else {
				m.Notes = append(m.Notes, Notation{"conv", []string{name, s.Path, d.Path}})
			}
		default:
			if lit := LiteralFor(d.Home); lit != "" {
				m.Notes = append(m.Notes, Notation{"literal", []string{d.Path, lit}})
			}
		}
	}
}

// errExtra returns the index of an additional argument whose type has the (T, error) getter E(), or -1.
func errExtra(extras []Param) int {
	for i, e := range extras {
		if e.Type == "*LInner" || e.Type == "*ext.Inner" || e.Type == "LInner" {
			return i
		}
	}
	return -1
}

// GenProg draws a whole program.
func GenProg(t *rapid.T, pf Profile) *Prog {
	p := &Prog{}
	uf := &UserFuncs{}
	npairs := rapid.IntRange(1, max(1, pf.MaxPairs)).Draw(t, "npairs")
	type pair struct{ s, d StructDecl }
	var pairs []pair
	for i := 0; i < npairs; i++ {
		s, d := GenStructPair(t, pf, i)
		pairs = append(pairs, pair{s, d})
		p.Structs = append(p.Structs, s, d)
	}
	if pf.ErrHeavy && rapid.IntRange(0, 2).Draw(t, "concreteErrGetterPair") == 0 {
		// a source whose methods return (T, error) and (T, *tr.E): the first is a getter that can fail, the second is no
		// getter at all (its second result is a concrete type, not error), whatever names or notations point at it
		mk := func(n, h string) Field { return Field{Name: n, Home: h, Kind: "basic"} }
		s := StructDecl{Pkg: "home", Name: "CES", Fields: []Field{mk("rank_", "int"), mk("score_", "int"), mk("Plain", "int")},
			Getters: []Getter{{Name: "Rank", Field: "rank_", Type: "int", PtrRecv: rapid.Bool().Draw(t, "cesPtr"), RetErr: true, RetConcreteErr: true},
				{Name: "Score", Field: "score_", Type: "int", RetErr: true}}}
		d := StructDecl{Pkg: "home", Name: "CED", Fields: []Field{mk("Rank", "int"), mk("Score", "int"), mk("Plain", "int"), mk("Other", "int")}}
		pairs = append(pairs, pair{s, d})
		p.Structs = append(p.Structs, s, d)
	}
	// two same-named packages (a/model, b/model) that only the sibling file home/types.go imports
	dupNames := pf.ExtStructs && rapid.IntRange(0, 7).Draw(t, "dupNames") == 0
	if dupNames {
		p.Structs = append(p.Structs,
			StructDecl{Pkg: "home", Name: "DupS", Fields: []Field{{Name: "A", Home: "[]int"}, {Name: "B", Home: "[]int"}, {Name: "C", Home: "int"}}},
			StructDecl{Pkg: "home", Name: "DupD", Fields: []Field{{Name: "A", Home: "[]am.AInt"}, {Name: "B", Home: "[]bm.BInt"}, {Name: "C", Home: "bm.BInt"}}})
	}
	nif := rapid.IntRange(1, max(1, pf.MaxIfaces)).Draw(t, "nifaces")
	mi := 0
	for k := 0; k < nif; k++ {
		it := Iface{Name: "Convergen"}
		if k > 0 {
			it.Name = fmt.Sprintf("Conv%d", k)
			it.Marked = true
		} else if nif > 1 && rapid.Bool().Draw(t, "firstMarked") {
			it.Name = "Alpha"
			it.Marked = true
		}
		if pf.Toggles && rapid.IntRange(0, 2).Draw(t, "ifaceOpts") == 0 {
			it.Opts = GenToggles(t, "i")
			if rapid.IntRange(0, 4).Draw(t, "istyle") == 0 {
				it.Opts.Style = "arg"
			}
		}
		it.GoGenerate = rapid.IntRange(0, 2).Draw(t, "gogen") == 0
		if pf.Docs && rapid.Bool().Draw(t, "idoc") {
			it.Doc = []string{fmt.Sprintf("%s converts things.", it.Name)}
		}
		nm := rapid.IntRange(1, max(1, pf.MaxMethods)).Draw(t, "nmethods")
		for j := 0; j < nm; j++ {
			pr := rapid.SampledFrom(pairs).Draw(t, "pair")
			m := Method{Name: fmt.Sprintf("Convert%02dTo%s", mi, strings.TrimPrefix(pr.d.Name, "X")), SrcType: pr.s.homeRef(), DstType: pr.d.homeRef(), SrcPtr: true, DstPtr: true}
			mi++
			if pf.Toggles {
				m.Opts = GenToggles(t, "m")
			}
			if pf.Shapes {
				GenShape(t, &m, pr.s.Pkg == "home")
			}
			if pf.ErrHeavy && rapid.IntRange(0, 4).Draw(t, "errHeavy") != 0 {
				m.RetErr = true
			}
			if pf.ErrHeavy && !m.Reverse && len(m.Extras) == 0 && rapid.IntRange(0, 2).Draw(t, "errHeavyExtra") == 0 {
				m.Extras = []Param{{Type: rapid.SampledFrom([]string{"*LInner", "*ext.Inner"}).Draw(t, "errHeavyExtraT")}}
				if m.SrcName != "" {
					m.Extras[0].Name = "x0"
				}
				// its (T, error) getter has nowhere to put the error in half of these methods
				if rapid.Bool().Draw(t, "errHeavyExtraNoErr") {
					m.RetErr = false
				}
			}
			if pf.Notations {
				GenNotations(t, &m, pr.s, pr.d, uf, pf)
			}
			m.TogglesLast = rapid.IntRange(0, 3).Draw(t, "togglesLast") == 0
			if pf.Hooks && !m.Reverse {
				eff := EffectiveOpts(it.Opts, m.Opts)
				for _, kind := range []string{"preprocess", "postprocess"} {
					if rapid.IntRange(0, 3).Draw(t, kind) != 0 && !(pf.HookHeavy && rapid.Bool().Draw(t, kind+"Heavy")) {
						continue
					}
					dptr := rapid.IntRange(0, 3).Draw(t, "hdptr") != 0
					sptr := rapid.IntRange(0, 3).Draw(t, "hsptr") != 0
					herr := m.RetErr && rapid.Bool().Draw(t, "herr")
					if pf.ErrHeavy && m.RetErr {
						herr = rapid.IntRange(0, 3).Draw(t, "herrHeavy") != 0
					}
					if pf.ErrHeavy && !m.RetErr && rapid.IntRange(0, 5).Draw(t, "herrIllegal") == 0 {
						herr = true // cannot fit: the tool must refuse it (C07, C10)
					}
					var ex []Param
					if len(m.Extras) > 0 && rapid.Bool().Draw(t, "hextras") {
						ex = m.Extras
					}
					_ = eff
					uf.ToSetup = rapid.IntRange(0, 2).Draw(t, "hookInSetup") == 0
					two := pf.ErrHeavy && rapid.IntRange(0, 7).Draw(t, "hookTwoResults") == 0 // cannot fit: must be refused
					uf.NextAsVar = rapid.IntRange(0, 4).Draw(t, "hookAsVar") == 0
					uf.NextConcreteErr = pf.ErrHeavy && m.RetErr && !two && rapid.IntRange(0, 11).Draw(t, "hookConcreteErr") == 0 // must be refused
					name := uf.HookN(kind[:3], m.DstType, dptr, m.SrcType, sptr, ex, herr, two)
					m.Notes = append(m.Notes, Notation{kind, []string{name}})
				}
			}
			if pf.Docs && rapid.IntRange(0, 2).Draw(t, "mdoc") == 0 {
				m.Doc = []string{fmt.Sprintf("%s copies %s into %s (costs US$5, $1 ${x} $$ 100%%).", m.Name, m.SrcType, m.DstType)}
			}
			it.Methods = append(it.Methods, m)
		}
		if pf.Hooks && pf.ExtStructs && k == 0 && rapid.IntRange(0, 2).Draw(t, "aliasedHook") == 0 {
			m := Method{Name: fmt.Sprintf("Convert%02dAliasedHook", mi), SrcType: "ext.Inner", DstType: "ext.Inner2", SrcPtr: true, DstPtr: true}
			mi++
			hk := rapid.SampledFrom([]string{"hooksv2.Finalize", "hooks.Finalize", "DotFinalize"}).Draw(t, "aliasedHookFn")
			m.Notes = append(m.Notes, Notation{rapid.SampledFrom([]string{"preprocess", "postprocess"}).Draw(t, "aliasedHookPos"), []string{hk}})
			// the other same-named package is imported too
			other := "hooks.Finalize"
			if hk == other {
				other = "hooksv2.Finalize"
			}
			it.Methods = append(it.Methods, m)
			m2 := Method{Name: fmt.Sprintf("Convert%02dAliasedHookTwin", mi), SrcType: "ext.Inner", DstType: "ext.Inner2", SrcPtr: true, DstPtr: true,
				Notes: []Notation{{"postprocess", []string{other}}}}
			mi++
			it.Methods = append(it.Methods, m2)
		}
		if dupNames && k == 0 {
			m := Method{Name: fmt.Sprintf("Convert%02dDupNames", mi), SrcType: "DupS", DstType: "DupD", SrcPtr: true, DstPtr: true}
			mi++
			m.Opts.Typecast = 1
			it.Methods = append(it.Methods, m)
		}
		// instantiated generic types as operands and additional arguments
		if pf.ExtStructs && rapid.IntRange(0, 7).Draw(t, "genericOperands") == 0 {
			m := Method{Name: fmt.Sprintf("Convert%02dGeneric", mi), SrcType: "LBox[int]", DstType: rapid.SampledFrom([]string{"ext.Box[int]", "LBox[int]", "ext.Box[int64]"}).Draw(t, "genericDst"), SrcPtr: true, DstPtr: rapid.Bool().Draw(t, "genericDstPtr")}
			mi++
			if rapid.Bool().Draw(t, "genericExtra") {
				m.Extras = []Param{{Type: "LBox[string]"}, {Type: "[]LPair[string, ext.MyInt]"}}
			}
			if rapid.Bool().Draw(t, "genericTypecast") {
				m.Opts.Typecast = 1
			}
			it.Methods = append(it.Methods, m)
		}
		// operand types that reach the setup file through a dot import (written without qualifier there and in the output)
		if pf.ExtStructs && rapid.IntRange(0, 7).Draw(t, "dotTypes") == 0 {
			m := Method{Name: fmt.Sprintf("Convert%02dDotTypes", mi), SrcType: "DotS", DstType: "DotD", SrcPtr: rapid.Bool().Draw(t, "dotSrcPtr"), DstPtr: true}
			mi++
			it.Methods = append(it.Methods, m)
		}
		// methods over the package-layout zoo (directory != package name, /v2 path, two packages of the
		// same name under aliases)
		if pf.ExtStructs && rapid.IntRange(0, 3).Draw(t, "layoutMethod") == 0 {
			lts := []string{"odd.T", "lib.T", "am.T", "bm.T"}
			m := Method{Name: fmt.Sprintf("Convert%02dLayout", mi), SrcType: rapid.SampledFrom(lts).Draw(t, "lsrc"),
				DstType: rapid.SampledFrom(lts).Draw(t, "ldst"), SrcPtr: true, DstPtr: rapid.Bool().Draw(t, "ldptr")}
			mi++
			if rapid.Bool().Draw(t, "ltypecast") {
				m.Opts.Typecast = 1
			}
			if rapid.IntRange(0, 2).Draw(t, "lconv") == 0 {
				m.Notes = append(m.Notes, Notation{"conv", []string{rapid.SampledFrom([]string{"odd.Conv", "lib.Conv", "ext.IntToStr", "DotIntToStr"}).Draw(t, "lconvf"), "A", "B"}})
			}
			it.Methods = append(it.Methods, m)
		}
		if len(it.Methods) > 0 && rapid.IntRange(0, 5).Draw(t, "embedLast") == 0 {
			// some of the methods reach the converter interface through an embedded, unmarked interface of the file
			it.EmbedLast = rapid.IntRange(1, len(it.Methods)).Draw(t, "embedLastN")
		}
		p.Ifaces = append(p.Ifaces, it)
	}
	// :conv whose converter is another function being generated in the same run (C06): the caller's
	// structs get a member of the callee's operand types
	if pf.Notations && rapid.IntRange(0, 2).Draw(t, "convToGenerated") == 0 {
		structIdx := map[string]int{}
		for i, sd := range p.Structs {
			structIdx[sd.homeRef()] = i
		}
		var callees, callers []*Method
		for ii := range p.Ifaces {
			for mi := range p.Ifaces[ii].Methods {
				m := &p.Ifaces[ii].Methods[mi]
				eff := EffectiveOpts(p.Ifaces[ii].Opts, m.Opts)
				// (types that only the setup file's dot import makes visible cannot be written in home/types.go)
				if eff.Style == "return" && m.Recv == "" && !m.Reverse && len(m.Extras) == 0 && !strings.HasPrefix(m.SrcType, "Dot") && !strings.HasPrefix(m.DstType, "Dot") {
					callees = append(callees, m)
				}
				si, ok1 := structIdx[m.SrcType]
				di, ok2 := structIdx[m.DstType]
				if ok1 && ok2 && p.Structs[si].Pkg == "home" && p.Structs[di].Pkg == "home" {
					callers = append(callers, m)
				}
			}
		}
		if len(callees) > 0 && len(callers) > 0 {
			callee := rapid.SampledFrom(callees).Draw(t, "callee")
			caller := rapid.SampledFrom(callers).Draw(t, "caller")
			if callee != caller {
				st, dt := callee.SrcType, callee.DstType
				if callee.SrcPtr {
					st = "*" + st
				}
				if callee.DstPtr {
					dt = "*" + dt
				}
				fs, fd := caller.SrcType, caller.DstType
				if caller.Reverse {
					fs, fd = fd, fs
				}
				si, di := structIdx[fs], structIdx[fd]
				has := func(sd StructDecl, n string) bool {
					for _, f := range sd.Fields {
						if f.Name == n {
							return true
						}
					}
					return false
				}
				if !has(p.Structs[si], "SubConv") && !has(p.Structs[di], "SubConv") {
					p.Structs[si].Fields = append(p.Structs[si].Fields, Field{Name: "SubConv", Home: st, Kind: "generated-operand"})
					p.Structs[di].Fields = append(p.Structs[di].Fields, Field{Name: "SubConv", Home: dt, Kind: "generated-operand"})
					caller.Notes = append(caller.Notes, Notation{"conv", []string{callee.Name, "SubConv"}})
				}
			}
		}
	}
	p.HomeFuncs = uf.String()
	p.SetupFuncs += uf.Setup()
	p.FixImports()
	// T12: an operand the user names like a package the same file imports (here: "e") hides that package from the
	// function body, in hand-written code just as in generated code - not a well-formed input
	for _, im := range p.Imports {
		if im.Name != "e" {
			continue
		}
		for ii := range p.Ifaces {
			for mi := range p.Ifaces[ii].Methods {
				m := &p.Ifaces[ii].Methods[mi]
				if m.SrcName == "e" {
					m.SrcName = "in"
				}
				if m.DstName == "e" {
					m.DstName = "out"
				}
			}
		}
	}
	return p
}

// FixImports sets the import list of the setup file from what its text references: a package used
// in a signature or a carried-over declaration is imported by name, a package referenced only by
// notations (converter, hook or literal text) or only by the field types of local structs is
// imported blank, as the README prescribes ("should have been imported anyhow").
func (p *Prog) FixImports() {
	p.Imports = nil
	var sigText, noteText strings.Builder
	for _, m := range p.AllMethods() {
		sigText.WriteString(m.MethodLine() + "\n")
		for _, n := range m.Notes {
			noteText.WriteString(n.Line() + "\n")
		}
	}
	sigText.WriteString(p.SetupFuncs)
	if p.BlankImportFieldPkgs {
		for _, s := range p.Structs {
			if s.Pkg == "home" {
				for _, f := range s.Fields {
					noteText.WriteString(f.Home + "\n")
				}
			}
		}
	}
	for _, k := range KnownPkgs {
		if k.Qual == "dotfn" {
			dot := strings.Contains(sigText.String(), "DotS") || strings.Contains(sigText.String(), "DotD")
			for _, d := range DotFuncs {
				dot = dot || strings.Contains(noteText.String(), " "+d)
			}
			if dot {
				p.Imports = append(p.Imports, Import{Name: ".", Path: k.Path})
				// a dot import cannot be blank at the same time: ordinary code of the setup file uses it as well, so that it
				// is not left unused when a notation that names one of its functions ends as "no match" or is overridden
				if use := "var _ = DotIntToStr // ordinary code that uses the dot import\n"; !strings.Contains(p.SetupFuncs, use) {
					p.SetupFuncs += use
				}
			}
			continue
		}
		switch {
		case usesQual(sigText.String(), k.Qual):
			p.Imports = append(p.Imports, Import{Name: k.Alias, Path: k.Path})
		case usesQual(noteText.String(), k.Qual) && k.Qual != "tr":
			name := "_"
			if k.Alias != "" {
				name = k.Alias // the notation can only name the package through its alias
			}
			p.Imports = append(p.Imports, Import{Name: name, Path: k.Path})
		}
	}
}
