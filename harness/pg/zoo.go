package pg

// The fixed part of every generated scratch module: a trace/fault package, an imported type
// package and local named types. Nothing here imports the standard library (one convergen run costs
// ~40 ms without std imports and ~0.6 s with any).

const GoMod = "module " + ModulePath + "\n\ngo 1.19\n"

const TrSrc = `// Package tr records calls of instrumented user functions and injects failures.
package tr

// E is the error type of injected failures.
type E struct{ N int }

func (e *E) Error() string { return "injected#" + Itoa(e.N) }

// Trace lists the instrumented call sites in call order ("E:" marks error-capable sites).
var Trace []string

// FailAt maps the number (1-based) of an error-capable call to the error it must return.
var FailAt = map[int]error{}

// Observer, when set by the behavioural driver, receives the arguments of instrumented functions.
var Observer func(site string, args ...interface{})

var ecalls int

// Reset clears trace and fault plan.
func Reset() { Trace = nil; ecalls = 0; FailAt = map[int]error{} }

// Hit records a call of a function that cannot fail.
func Hit(site string) { Trace = append(Trace, site) }

// HitE records a call of an error-capable function and returns the planned error for it, if any.
func HitE(site string) error {
	ecalls++
	Trace = append(Trace, "E:"+site)
	return FailAt[ecalls]
}

// Arg hands the arguments of an instrumented function to the observer.
func Arg(site string, args ...interface{}) {
	if Observer != nil {
		Observer(site, args...)
	}
}

// Itoa formats an int without the standard library.
func Itoa(n int) string {
	if n == 0 {
		return "0"
	}
	neg := n < 0
	if neg {
		n = -n
	}
	var b [24]byte
	i := len(b)
	for n > 0 {
		i--
		b[i] = byte('0' + n%10)
		n /= 10
	}
	if neg {
		i--
		b[i] = '-'
	}
	return string(b[i:])
}
`

// ExtSrc is the imported type package "ext" (directory name == package name).
const ExtSrc = `package ext

import (
	"example.com/m/deep/audit"
	"example.com/m/tr"
)

// Trail / Trail2: slices, pointers and maps of a type from a package that the home package reaches only through
// ext (like a []time.Time or []uuid.UUID field of an imported model): whoever prints "make([]T, n)" for them has to
// qualify T although the setup file imports nothing of the kind.
type Trail struct {
	Stamps []audit.Stamp
	Ptrs   []*audit.Stamp
	One    audit.Stamp
	N      int
}

type Trail2 struct {
	Stamps []audit.Stamp
	Ptrs   []*audit.Stamp
	One    audit.Stamp
	N      int64
}

// Record / Record2 hold a struct of a package that the home package does not import itself.
type Record struct {
	Stamp audit.Stamp
	N     int
}

type Record2 struct {
	Stamp audit.Stamp2
	N     int
}

// Box is generic: wherever the generated code names an instantiation it has to carry the type arguments.
type Box[T any] struct {
	V T
	N int
}

// InnerTwin has the same underlying type as Inner (convertible, not assignable).
type InnerTwin Inner

type MyInt int
type MyStr string
type MyFlt float64

// Status has a value-receiver String method.
type Status int

func (s Status) String() string { tr.Hit("m:ext.Status.String"); return "S" + tr.Itoa(int(s)) }

// PStatus has a pointer-receiver String method.
type PStatus int

func (s *PStatus) String() string { tr.Hit("m:ext.PStatus.String"); return "PS" + tr.Itoa(int(*s)) }

type Inner struct {
	A int
	B string
	c int
	D MyInt
}

func (i Inner) C() int          { tr.Hit("m:ext.Inner.C"); return i.c }
func (i *Inner) PB() string     { tr.Hit("m:ext.Inner.PB"); return i.B }
func (i Inner) hid() int        { tr.Hit("m:ext.Inner.hid"); return i.c }
func (i Inner) E() (int, error) { err := tr.HitE("m:ext.Inner.E"); return i.A, err }

// SetC lets other packages fill the unexported member.
func (i *Inner) SetC(v int) { i.c = v }

type Inner2 struct {
	A int64
	B MyStr
	c int
	D int
}

func (i *Inner2) SetC(v int) { i.c = v }

type Hidden struct{ x, y int }

func (h *Hidden) Set(x, y int) { h.x, h.y = x, y }

type Empty struct{}

type IDs []int

type Named interface{ String() string }

type WithAnon struct {
	Pub struct {
		X int
		y int
	}
	N int
}

// InnerG has fields named like the getters of Inner (C and PB).
type InnerG struct {
	A  int
	C  int
	PB string
}

type WithAnon2 struct {
	Pub struct {
		X int64
		y int
	}
	N int
}

// Cat is returned by value from getters; PName has a pointer receiver.
type Cat struct {
	Name string
	id   int
}

func (c Cat) ID() int        { tr.Hit("m:ext.Cat.ID"); return c.id }
func (c *Cat) PName() string { tr.Hit("m:ext.Cat.PName"); return c.Name }

func IntToStr(i int) string         { tr.Hit("ext.IntToStr"); return "i" + tr.Itoa(i) }
func StrLen(s string) int           { tr.Hit("ext.StrLen"); return len(s) }
func StrLenE(s string) (int, error) { err := tr.HitE("ext.StrLenE"); return len(s), err }
func InnerSum(i *Inner) int         { tr.Hit("ext.InnerSum"); return i.A + i.c }
func unexportedConv(i int) int      { return i }
`

// OddSrc lives in directory "odd-dir" but declares package odd (directory != package name).
const OddSrc = `package odd

import "example.com/m/tr"

type OInt int

type T struct {
	A int
	B string
	N OInt
}

func Conv(i int) string { tr.Hit("odd.Conv"); return "o" + tr.Itoa(i) }

func Pre(d *T, s *T) { tr.Hit("odd.Pre") }
`

// LibV2Src lives in directory "lib/v2" and declares package lib (major-version suffix layout).
const LibV2Src = `package lib

import "example.com/m/tr"

type LibInt int

type T struct {
	A int
	B string
	N LibInt
}

func Conv(i int) string { tr.Hit("lib.Conv"); return "v" + tr.Itoa(i) }
`

// ModelASrc and ModelBSrc are two packages with the same name, imported under aliases.
const ModelASrc = `package model

type AInt int

type T struct {
	A int
	B string
	N AInt
}
`

// EnumsSrc: a package the setup file imports under the one-letter alias "e" (the name generated slice loops use for the element).
const EnumsSrc = `package enums

type Code int

type Label string
`

const ModelBSrc = `package model

type BInt int

type T struct {
	A int
	B string
	N BInt
}
`

// OtherHomeSrc is a package that has the same NAME as the setup file's package (home) but another
// path; it is imported under the alias oh.
const OtherHomeSrc = `package home

type Rec struct {
	A      int
	hidden int
	B      string
}

func (r *Rec) SetHidden(v int) { r.hidden = v }

type Rec2 struct {
	A      int64
	hidden int
	B      string
}
`

// AuditSrc is imported by package ext only: the home package reaches its types through ext.Record
// but never imports it (so its types are named without qualifier by a naive type printer).
const AuditSrc = `package audit

type Stamp struct {
	At  int
	rev int
}

func (s *Stamp) SetRev(v int) { s.rev = v }

type Stamp2 struct {
	At  int64
	rev int
}
`

// HooksSrc / HooksV2Src: two packages that both declare "package hooks" and export a same-shaped hook.
const HooksSrc = `package hooks

import (
	"example.com/m/ext"
	"example.com/m/tr"
)

func Finalize(d *ext.Inner2, s *ext.Inner) { tr.Arg("hooks.Finalize", d, s); tr.Hit("hooks.Finalize") }
`

const HooksV2Src = `package hooks

import (
	"example.com/m/ext"
	"example.com/m/tr"
)

func Finalize(d *ext.Inner2, s *ext.Inner) { tr.Arg("hooksv2.Finalize", d, s); tr.Hit("hooksv2.Finalize") }
`

// DotFnSrc is a package the setup file dot-imports: its functions are written without qualifier in notations
// (`:conv DotIntToStr A B`) and, through the carried-over dot import, in the generated code.
const DotFnSrc = `package dotfn

import (
	"example.com/m/ext"
	"example.com/m/tr"
)

func DotIntToStr(i int) string { tr.Hit("DotIntToStr"); return "d" + tr.Itoa(i) }

func DotFinalize(d *ext.Inner2, s *ext.Inner) { tr.Arg("DotFinalize", d, s); tr.Hit("DotFinalize") }

// DotS / DotD: operand types that the setup file names without qualifier, through its dot import.
type DotS struct {
	A int
	B string
	C []int
}

type DotD struct {
	A int
	B string
	C []int
}
`

// DotFuncs are the names that reach the setup file through its dot import of package dotfn.
var DotFuncs = []string{"DotIntToStr", "DotFinalize"}

// DriverFuncName is the name under which a function written in a notation is reachable from the emitted driver files
// (they do not dot-import anything).
func DriverFuncName(n string) string {
	for _, d := range DotFuncs {
		if n == d {
			return "dotfn." + n
		}
	}
	return n
}

// KnownPkgs maps the qualifier used in home-context type expressions to the import it needs.
var KnownPkgs = []struct{ Qual, Alias, Path string }{
	{"ext", "", ModulePath + "/ext"},
	{"tr", "", ModulePath + "/tr"},
	{"odd", "", ModulePath + "/odd-dir"},
	{"lib", "", ModulePath + "/lib/v2"},
	{"am", "am", ModulePath + "/a/model"},
	{"bm", "bm", ModulePath + "/b/model"},
	{"oh", "oh", ModulePath + "/other/home"},
	{"hooks", "", ModulePath + "/hooks"},
	{"hooksv2", "hooksv2", ModulePath + "/hooks/v2"},
	{"e", "e", ModulePath + "/enums"},
	{"dotfn", "", ModulePath + "/dotfn"},      // dot-imported by setup files that name DotIntToStr / DotFinalize in a notation
	{"audit", "", ModulePath + "/deep/audit"}, // never imported by generated setup files; the behavioural driver names its types
}

// LocalZooSrc holds the local named types of the home package (ordinary build).
const LocalZooSrc = `package home

import (
	"example.com/m/ext"
	"example.com/m/tr"
)

// LNode refers to itself (directly, through a slice and through a map).
type LNode struct {
	V    int
	Next *LNode
	Kids []LNode
	By   map[string]*LNode
}

// LBox / LPair are generic (see ext.Box).
type LBox[T any] struct {
	V T
	N int
}

type LPair[K comparable, V any] struct {
	Key K
	Val V
}

type LInt int
type LStr string
type LFlt float64

// MyStr is the namesake of ext.MyStr.
type MyStr string

type LStatus int

func (s LStatus) String() string { tr.Hit("m:LStatus.String"); return "L" + tr.Itoa(int(s)) }

type LPStatus int

func (s *LPStatus) String() string { tr.Hit("m:LPStatus.String"); return "LP" + tr.Itoa(int(*s)) }

type LInner struct {
	A int
	B string
	c int
	D LInt
}

func (i LInner) C() int          { tr.Hit("m:LInner.C"); return i.c }
func (i *LInner) PB() string     { tr.Hit("m:LInner.PB"); return i.B }
func (i LInner) E() (int, error) { err := tr.HitE("m:LInner.E"); return i.A, err }

// CE returns a concrete type that implements error as its second result: not the documented (T, error) getter shape
// (a nil *tr.E stored in an error is not nil), so it is no getter.
func (i LInner) CE() (int, *tr.E) { tr.Hit("m:LInner.CE"); return i.A, nil }

type LInner2 struct {
	A int64
	B LStr
	c int
	D int
}

type LEmpty struct{}

// LTwin has the same underlying type as LInner (convertible under :typecast, not assignable).
type LTwin LInner

// Stamp / Stamp2 are named like the types of package deep/audit and have the same unexported member.
type Stamp struct {
	At  int
	rev int
}

type Stamp2 struct {
	At  int64
	rev int
}

// LDeep / LDeep2 nest a struct inside a struct (three-segment destination paths).
type LDeep struct {
	In LInner
	X  int
	N  LInt
}

type LDeep2 struct {
	In LInner2
	X  int64
	N  int
}

// LWithAnon / LWithAnon2 hold an anonymous struct with an unexported member: declared in the home package, so the
// member is accessible there (":map Anon.x A" must resolve).
type LWithAnon struct {
	N    int
	Anon struct {
		x int
		Y string
	}
}

type LWithAnon2 struct {
	N    int64
	Anon struct {
		x int
		Y string
	}
}

// LLock / LCounter: a struct that holds a lock (pointer-receiver Lock/Unlock, the shape go vet's copylocks rule looks
// for); slices of it are copied element by element like any other struct.
type LLock struct{ state int }

func (l *LLock) Lock()   { l.state = 1 }
func (l *LLock) Unlock() { l.state = 0 }

type LCounter struct {
	mu LLock
	N  int
}

// LMoney / LLine / LOrderD ...: a getter chain three levels deep whose last step is a pointer-receiver getter on a
// by-value field of a getter result (src.Line().Price.Currency() does not compile).
type LMoney struct{ cur_ string }

func (m *LMoney) Currency() string { tr.Hit("m:LMoney.Currency"); return m.cur_ }

type LLine struct {
	Price LMoney
	Qty   int
}

type LMoneyD struct{ Currency string }

type LLineD struct {
	Price LMoneyD
	Qty   int
}

// LForeign is a local type whose underlying struct (and its unexported member) comes from package ext.
type LForeign ext.Inner

// LInnerG has fields named like the getters of LInner (C and PB).
type LInnerG struct {
	A  int
	C  int
	PB string
}

type LIDs []int

type LStringer interface{ String() string }

type LFunc func(int) int

func LIntToStr(i int) string         { tr.Hit("LIntToStr"); return "l" + tr.Itoa(i) }
func LStrLen(s string) int           { tr.Hit("LStrLen"); return len(s) }
func LStrLenE(s string) (int, error) { err := tr.HitE("LStrLenE"); return len(s), err }
func LInnerSum(i *LInner) int        { tr.Hit("LInnerSum"); return i.A + i.c }
`

// TypeAtom is one entry of the field-type alphabet. Home is the type expression as written in the
// home package; Ext the expression inside package ext ("" when the type is not expressible there).
type TypeAtom struct {
	Home string
	Ext  string
	Kind string // class label for the evidence histogram
}

// Alphabet is ordered simple → complex (rapid shrinks towards the front).
var Alphabet = []TypeAtom{
	{"int", "int", "basic"},
	{"string", "string", "basic"},
	{"int64", "int64", "basic"},
	{"bool", "bool", "basic"},
	{"float64", "float64", "basic"},
	{"uint8", "uint8", "basic"},
	{"int32", "int32", "basic"},
	{"LInt", "", "named-basic-local"},
	{"LStr", "", "named-basic-local"},
	{"MyStr", "", "named-basic-local-namesake-of-imported"},
	{"ext.MyInt", "MyInt", "named-basic-imported"},
	{"ext.MyStr", "MyStr", "named-basic-imported"},
	{"LStatus", "", "stringer-value-local"},
	{"ext.Status", "Status", "stringer-value-imported"},
	{"LPStatus", "", "stringer-pointer-local"},
	{"ext.PStatus", "PStatus", "stringer-pointer-imported"},
	{"*int", "*int", "pointer-basic"},
	{"*string", "*string", "pointer-basic"},
	{"*LInt", "", "pointer-named"},
	{"*ext.MyInt", "*MyInt", "pointer-named"},
	{"*LStatus", "", "pointer-stringer"},
	{"LInner", "", "struct-local"},
	{"LInner2", "", "struct-local"},
	{"ext.Inner", "Inner", "struct-imported"},
	{"ext.Inner2", "Inner2", "struct-imported"},
	{"*LInner", "", "pointer-struct"},
	{"*LInner2", "", "pointer-struct"},
	{"*ext.Inner", "*Inner", "pointer-struct"},
	{"*ext.Inner2", "*Inner2", "pointer-struct"},
	{"ext.Hidden", "Hidden", "struct-imported-hidden"},
	{"LEmpty", "", "struct-empty"},
	{"ext.Empty", "Empty", "struct-empty"},
	{"struct{ X int; Y string }", "struct{ X int; Y string }", "struct-anonymous"},
	{"struct{ X int64; Y string }", "struct{ X int64; Y string }", "struct-anonymous"},
	{"ext.WithAnon", "WithAnon", "struct-imported-anon-member"},
	{"ext.WithAnon2", "WithAnon2", "struct-imported-anon-member"},
	{"ext.Cat", "Cat", "struct-imported"},
	{"LBox[int]", "", "struct-local-generic"},
	{"ext.Box[int]", "Box[int]", "struct-imported-generic"},
	{"[]LPair[string, int]", "", "slice-struct-generic"},
	{"[]struct{ X int `json:\"a\"` }", "[]struct{ X int `json:\"a\"` }", "slice-anonymous-struct-tagged"},
	{"[]struct{ X int `json:\"b\"` }", "[]struct{ X int `json:\"b\"` }", "slice-anonymous-struct-tagged"},
	{"[]int", "[]int", "slice-basic"},
	{"[]string", "[]string", "slice-basic"},
	{"[]int64", "[]int64", "slice-basic"},
	{"[]LInt", "", "slice-named"},
	{"[]ext.MyInt", "[]MyInt", "slice-named"},
	{"[]LStatus", "", "slice-named"},
	{"[]LPStatus", "", "slice-named-pointer-receiver-stringer"},
	{"[]LCounter", "", "slice-struct-holding-a-lock"},
	{"[]LInner", "", "slice-struct"},
	{"[]*LInner", "", "slice-pointer"},
	{"[]ext.Inner", "[]Inner", "slice-struct"},
	{"[]interface{}", "[]interface{}", "slice-interface"},
	{"[]LStringer", "", "slice-interface"},
	{"[]*int", "[]*int", "slice-pointer"},
	{"[]*LInt", "", "slice-pointer"},
	{"[]bool", "[]bool", "slice-basic"},
	{"[]float64", "[]float64", "slice-basic"},
	{"[]LStr", "", "slice-named"},
	{"[]LInner2", "", "slice-struct"},
	{"[][]int", "[][]int", "slice-slice"},
	{"[]error", "[]error", "slice-interface"},
	{"[]map[string]int", "[]map[string]int", "slice-map"},
	{"LIDs", "", "slice-named-type"},
	{"ext.IDs", "IDs", "slice-named-type"},
	{"[]byte", "[]byte", "slice-basic"},
	{"[3]int", "[3]int", "array"},
	{"map[string]int", "map[string]int", "map"},
	{"map[string]LInt", "", "map"},
	{"interface{}", "interface{}", "interface"},
	{"LStringer", "", "interface"},
	{"ext.Named", "Named", "interface"},
	{"error", "error", "error"},
	{"func(int) int", "func(int) int", "func"},
	{"LFunc", "", "func"},
	{"chan int", "chan int", "chan"},
	{"odd.OInt", "", "named-basic-layout-dir-ne-pkg"},
	{"lib.LibInt", "", "named-basic-layout-v2"},
	{"am.AInt", "", "named-basic-layout-alias"},
	{"bm.BInt", "", "named-basic-layout-alias"},
	{"odd.T", "", "struct-layout-dir-ne-pkg"},
	{"lib.T", "", "struct-layout-v2"},
	{"am.T", "", "struct-layout-alias"},
	{"bm.T", "", "struct-layout-alias"},
	{"[]lib.LibInt", "", "slice-named-layout"},
	{"e.Code", "", "named-basic-layout-alias-like-loop-variable"},
	{"[]e.Code", "", "slice-named-layout-alias-like-loop-variable"},
	{"[]e.Label", "", "slice-named-layout-alias-like-loop-variable"},
	{"oh.Rec", "", "struct-layout-same-package-name"},
	{"oh.Rec2", "", "struct-layout-same-package-name"},
	{"LForeign", "", "struct-local-foreign-underlying"},
	{"LTwin", "", "struct-local-twin"},
	{"ext.InnerTwin", "InnerTwin", "struct-imported-twin"},
	{"Stamp", "", "struct-local-same-name-as-indirect"},
	{"Stamp2", "", "struct-local-same-name-as-indirect"},
	{"ext.Record", "Record", "struct-imported-with-indirect-member"},
	{"ext.Record2", "Record2", "struct-imported-with-indirect-member"},
	{"ext.Trail", "Trail", "struct-imported-with-indirect-slices"},
	{"ext.Trail2", "Trail2", "struct-imported-with-indirect-slices"},
	{"LDeep", "", "struct-local-deep"},
	{"LDeep2", "", "struct-local-deep"},
	{"LWithAnon", "", "struct-local-anon-member"},
	{"LWithAnon2", "", "struct-local-anon-member"},
	{"LInnerG", "", "struct-local-getter-names"},
	{"ext.InnerG", "InnerG", "struct-imported-getter-names"},
	// unnamed composite element types that mention a named type (the element type is printed as a whole)
	{"[][]LInt", "", "slice-composite-over-named"},
	{"[][]ext.MyInt", "[][]MyInt", "slice-composite-over-named"},
	{"[]map[string]LInt", "", "slice-composite-over-named"},
	{"[]map[ext.MyStr]*ext.Inner", "[]map[MyStr]*Inner", "slice-composite-over-named"},
	{"[]*[]LInt", "", "slice-composite-over-named"},
	{"[]chan ext.MyInt", "[]chan MyInt", "slice-composite-over-named"},
	{"[]func(LInt) ext.MyInt", "", "slice-composite-over-named"},
	{"[][2]LStatus", "", "slice-composite-over-named"},
	{"[]struct{ V LInt }", "", "slice-composite-over-named"},
	{"[]**LInner", "", "slice-composite-over-named"},
}
