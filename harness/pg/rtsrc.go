package pg

// RtSrc is the fixed runtime of the behavioural driver. It is written into the generated package
// as home/zz_rt_test.go (same package: unexported members are reachable) next to the generated
// home/zz_cases_test.go. It may import the standard library: convergen never loads test files.
const RtSrc = `package home

import (
	"encoding/json"
	"fmt"
	"os"
	"reflect"
	"sort"
	"strconv"
	"strings"
	"testing"
	"unsafe"

	"example.com/m/ext"
	"example.com/m/tr"
)

// ---- deterministic PRNG (splitmix64) ----

type rtRand struct{ s uint64 }

func (r *rtRand) next() uint64 {
	r.s += 0x9e3779b97f4a7c15
	z := r.s
	z = (z ^ (z >> 30)) * 0xbf58476d1ce4e5b9
	z = (z ^ (z >> 27)) * 0x94d049bb133111eb
	return z ^ (z >> 31)
}
func (r *rtRand) intn(n int) int { return int(r.next() % uint64(n)) }
func (r *rtRand) chance(pct int) bool { return r.intn(100) < pct }

// ---- filler ----

const (
	modeDistinct = 0 // every scalar leaf carries a distinct value, no nil pointers
	modeRandom   = 1
	modeEdge     = 2 // nil pointers, nil/empty/shared slices, zero and extreme scalars
)

type rtFiller struct {
	rnd     *rtRand
	mode    int
	counter int
	noNil   bool // keep every pointer / interface non-nil (open finding: nil on explicit paths)
	slices  map[reflect.Type][]reflect.Value
}

var rtFuncs = []interface{}{func(i int) int { return i + 1 }, func(i int) int { return i * 2 }, LFunc(func(i int) int { return -i })}
var rtIfaceImpls = []interface{}{LStatus(3), ext.Status(4), LStatus(7), ext.MyInt(5), "str", 42}

func newFiller(seed uint64, mode int, noNil bool) *rtFiller {
	return &rtFiller{rnd: &rtRand{seed}, mode: mode, noNil: noNil, slices: map[reflect.Type][]reflect.Value{}}
}

func settable(v reflect.Value) reflect.Value {
	if v.CanSet() {
		return v
	}
	return reflect.NewAt(v.Type(), unsafe.Pointer(v.UnsafeAddr())).Elem()
}

func (f *rtFiller) nilOK(pctEdge, pctRandom int) bool {
	if f.noNil || f.mode == modeDistinct {
		return false
	}
	if f.mode == modeEdge {
		return f.rnd.chance(pctEdge)
	}
	return f.rnd.chance(pctRandom)
}

var edgeInts = []int64{0, 1, -1, 127, -128, 255, 32767, 2147483647, -2147483648, 9223372036854775807, -9223372036854775808}
var edgeStrings = []string{"", "a", "héllo→wörld", "with space", strings.Repeat("x", 70), "0", "\x00nul"}

func (f *rtFiller) fill(v reflect.Value, depth int) {
	v = settable(v)
	f.counter++
	switch v.Kind() {
	case reflect.Bool:
		v.SetBool(f.rnd.chance(50))
	case reflect.Int, reflect.Int8, reflect.Int16, reflect.Int32, reflect.Int64:
		var x int64
		switch {
		case f.mode == modeDistinct:
			x = int64(f.counter%100 + 1)
		case f.mode == modeEdge && f.rnd.chance(50):
			x = edgeInts[f.rnd.intn(len(edgeInts))]
		default:
			x = int64(f.rnd.next()%2000) - 1000
		}
		if v.OverflowInt(x) {
			x = x % 100
		}
		v.SetInt(x)
	case reflect.Uint, reflect.Uint8, reflect.Uint16, reflect.Uint32, reflect.Uint64, reflect.Uintptr:
		var x uint64
		switch {
		case f.mode == modeDistinct:
			x = uint64(f.counter%100 + 1)
		case f.mode == modeEdge && f.rnd.chance(50):
			x = []uint64{0, 1, 255, 65535, 4294967295, 18446744073709551615}[f.rnd.intn(6)]
		default:
			x = f.rnd.next() % 2000
		}
		if v.OverflowUint(x) {
			x = x % 100
		}
		v.SetUint(x)
	case reflect.Float32, reflect.Float64:
		switch {
		case f.mode == modeDistinct:
			v.SetFloat(float64(f.counter) + 0.5)
		case f.mode == modeEdge && f.rnd.chance(50):
			v.SetFloat([]float64{0, -1.5, 1e30, -1e30, 0.1}[f.rnd.intn(5)])
		default:
			v.SetFloat(float64(f.rnd.next()%100000)/8 - 1000)
		}
	case reflect.String:
		switch {
		case f.mode == modeDistinct:
			v.SetString("s" + strconv.Itoa(f.counter))
		case f.mode == modeEdge && f.rnd.chance(60):
			v.SetString(edgeStrings[f.rnd.intn(len(edgeStrings))])
		default:
			v.SetString("r" + strconv.Itoa(int(f.rnd.next()%10000)))
		}
	case reflect.Ptr:
		if depth > 5 || f.nilOK(40, 15) {
			v.Set(reflect.Zero(v.Type()))
			return
		}
		p := reflect.New(v.Type().Elem())
		f.fill(p.Elem(), depth+1)
		v.Set(p)
	case reflect.Slice:
		if depth > 5 || f.nilOK(30, 10) { // (depth: self-referential types)
			v.Set(reflect.Zero(v.Type()))
			return
		}
		if f.mode != modeDistinct && !f.noNil && f.rnd.chance(12) {
			v.Set(reflect.MakeSlice(v.Type(), 0, f.rnd.intn(3))) // empty, non-nil
			return
		}
		// shared backing array with an earlier slice of the same type
		if prev := f.slices[v.Type()]; len(prev) > 0 && f.mode == modeEdge && f.rnd.chance(35) {
			p := prev[f.rnd.intn(len(prev))]
			if p.Len() > 0 {
				lo := f.rnd.intn(p.Len())
				v.Set(p.Slice(lo, p.Len()))
				return
			}
		}
		n := 1 + f.rnd.intn(4)
		extra := 0
		if f.rnd.chance(30) {
			extra = 1 + f.rnd.intn(3)
		}
		s := reflect.MakeSlice(v.Type(), n, n+extra)
		for i := 0; i < n; i++ {
			f.fill(s.Index(i), depth+1)
		}
		v.Set(s)
		f.slices[v.Type()] = append(f.slices[v.Type()], s)
	case reflect.Array:
		for i := 0; i < v.Len(); i++ {
			f.fill(v.Index(i), depth+1)
		}
	case reflect.Map:
		if depth > 5 || f.nilOK(30, 10) {
			v.Set(reflect.Zero(v.Type()))
			return
		}
		m := reflect.MakeMap(v.Type())
		n := f.rnd.intn(3)
		for i := 0; i < n; i++ {
			k := reflect.New(v.Type().Key()).Elem()
			e := reflect.New(v.Type().Elem()).Elem()
			f.fill(k, depth+1)
			f.fill(e, depth+1)
			m.SetMapIndex(k, e)
		}
		v.Set(m)
	case reflect.Struct:
		for i := 0; i < v.NumField(); i++ {
			f.fill(v.Field(i), depth+1)
		}
	case reflect.Interface:
		if f.nilOK(35, 15) {
			v.Set(reflect.Zero(v.Type()))
			return
		}
		if v.Type().String() == "error" {
			v.Set(reflect.ValueOf(&tr.E{N: 1000 + f.counter}))
			return
		}
		start := f.rnd.intn(len(rtIfaceImpls))
		for k := 0; k < len(rtIfaceImpls); k++ {
			c := reflect.ValueOf(rtIfaceImpls[(start+k)%len(rtIfaceImpls)])
			if c.Type().Implements(v.Type()) {
				nv := reflect.New(c.Type()).Elem()
				f.fill(nv, depth+1)
				v.Set(nv)
				return
			}
		}
		v.Set(reflect.Zero(v.Type()))
	case reflect.Func:
		if f.nilOK(40, 20) {
			v.Set(reflect.Zero(v.Type()))
			return
		}
		start := f.rnd.intn(len(rtFuncs))
		for k := 0; k < len(rtFuncs); k++ {
			c := reflect.ValueOf(rtFuncs[(start+k)%len(rtFuncs)])
			if c.Type().ConvertibleTo(v.Type()) {
				v.Set(c.Convert(v.Type()))
				return
			}
		}
	case reflect.Chan:
		if f.nilOK(40, 20) {
			v.Set(reflect.Zero(v.Type()))
			return
		}
		v.Set(reflect.MakeChan(v.Type(), 1))
	}
}

// ---- deep dump: path -> printable value ----

type rtLeaf struct{ Path, Val string }

func dumpInto(out *[]rtLeaf, path string, v reflect.Value, depth int) {
	add := func(s string) { *out = append(*out, rtLeaf{path, s}) }
	if depth > 8 {
		add("<deep>")
		return
	}
	switch v.Kind() {
	case reflect.Bool:
		add(strconv.FormatBool(v.Bool()))
	case reflect.Int, reflect.Int8, reflect.Int16, reflect.Int32, reflect.Int64:
		add(strconv.FormatInt(v.Int(), 10))
	case reflect.Uint, reflect.Uint8, reflect.Uint16, reflect.Uint32, reflect.Uint64, reflect.Uintptr:
		add(strconv.FormatUint(v.Uint(), 10))
	case reflect.Float32, reflect.Float64:
		add(strconv.FormatFloat(v.Float(), 'g', -1, 64))
	case reflect.String:
		add(strconv.Quote(v.String()))
	case reflect.Ptr:
		if v.IsNil() {
			add("nil")
			return
		}
		dumpInto(out, path+"->", v.Elem(), depth+1)
	case reflect.Slice:
		if v.IsNil() {
			add("nil-slice")
			return
		}
		add("len=" + strconv.Itoa(v.Len()))
		for i := 0; i < v.Len(); i++ {
			dumpInto(out, path+"["+strconv.Itoa(i)+"]", v.Index(i), depth+1)
		}
	case reflect.Array:
		for i := 0; i < v.Len(); i++ {
			dumpInto(out, path+"["+strconv.Itoa(i)+"]", v.Index(i), depth+1)
		}
	case reflect.Map:
		if v.IsNil() {
			add("nil-map")
			return
		}
		var items []string
		it := v.MapRange()
		for it.Next() {
			var ko, vo []rtLeaf
			dumpInto(&ko, "", it.Key(), depth+1)
			dumpInto(&vo, "", it.Value(), depth+1)
			items = append(items, fmt.Sprint(ko)+"="+fmt.Sprint(vo))
		}
		sort.Strings(items)
		add("map{" + strings.Join(items, ",") + "}")
	case reflect.Struct:
		if v.NumField() == 0 {
			add("{}")
		}
		for i := 0; i < v.NumField(); i++ {
			p := v.Type().Field(i).Name
			if path != "" {
				p = path + "." + p
			}
			dumpInto(out, p, v.Field(i), depth+1)
		}
	case reflect.Interface:
		if v.IsNil() {
			add("nil-iface")
			return
		}
		add("dyn:" + v.Elem().Type().String())
		dumpInto(out, path+"(i)", v.Elem(), depth+1)
	case reflect.Func:
		if v.IsNil() {
			add("nil-func")
			return
		}
		for k, f := range rtFuncs {
			if reflect.ValueOf(f).Pointer() == v.Pointer() {
				add("func#" + strconv.Itoa(k))
				return
			}
		}
		add("func:other")
	case reflect.Chan:
		if v.IsNil() {
			add("nil-chan")
		} else {
			add("chan")
		}
	default:
		add("?" + v.Kind().String())
	}
}

func dump(ptr interface{}) []rtLeaf {
	var out []rtLeaf
	dumpInto(&out, "", reflect.ValueOf(ptr).Elem(), 0)
	return out
}

func dumpAny(x interface{}) string {
	var out []rtLeaf
	v := reflect.ValueOf(x)
	if !v.IsValid() {
		return "<nil>"
	}
	dumpInto(&out, "", v, 0)
	var sb strings.Builder
	for _, l := range out {
		sb.WriteString(l.Path + "=" + l.Val + ";")
	}
	return sb.String()
}

func diffLeaves(a, b []rtLeaf) []string {
	am, bm := map[string]string{}, map[string]string{}
	for _, l := range a {
		am[l.Path] = l.Val
	}
	for _, l := range b {
		bm[l.Path] = l.Val
	}
	var out []string
	seen := map[string]bool{}
	for _, l := range a {
		if bv, ok := bm[l.Path]; !ok || bv != l.Val {
			if !seen[l.Path] {
				out = append(out, fmt.Sprintf("%s: got %s want %s", l.Path, l.Val, orMissing(bm, l.Path)))
				seen[l.Path] = true
			}
		}
	}
	for _, l := range b {
		if _, ok := am[l.Path]; !ok && !seen[l.Path] {
			out = append(out, fmt.Sprintf("%s: got <absent> want %s", l.Path, l.Val))
			seen[l.Path] = true
		}
	}
	return out
}

func orMissing(m map[string]string, k string) string {
	if v, ok := m[k]; ok {
		return v
	}
	return "<absent>"
}

// ---- run bookkeeping ----

type rtObs struct {
	Site  string
	Dumps []string
	Ptrs  []uintptr
}

type rtIssue struct {
	Method string ` + "`json:\"method\"`" + `
	Seed   int    ` + "`json:\"seed\"`" + `
	Mode   int    ` + "`json:\"mode\"`" + `
	Kind   string ` + "`json:\"kind\"`" + `
	Path   string ` + "`json:\"path,omitempty\"`" + `
	Detail string ` + "`json:\"detail\"`" + `
}

type rtRun struct {
	Method  string
	Seed    int
	Mode    int
	NoNil   bool
	base    uint64
	Issues  *[]rtIssue
	obs     []rtObs
	gotObs  []rtObs
	gotTr   []string
	wantObs []rtObs
	wantTr  []string
	Panic   string
	refill  uint64
	stats   *rtStats
}

type rtStats struct {
	Runs        int ` + "`json:\"runs\"`" + `
	EdgeRuns    int ` + "`json:\"edge_runs\"`" + `
	FaultRuns   int ` + "`json:\"fault_runs\"`" + `
	Panics      int ` + "`json:\"panics\"`" + `
	AliasProbes int ` + "`json:\"alias_probes\"`" + `
	NilSlices   int ` + "`json:\"nil_slice_sources\"`" + `
	HookCalls   int ` + "`json:\"hook_calls\"`" + `
	ErrSites    int ` + "`json:\"error_sites\"`" + `
	Skipped     int ` + "`json:\"skipped_unobservable\"`" + `
}

func (r *rtRun) issue(kind, path, format string, a ...interface{}) {
	if len(*r.Issues) < 400 {
		*r.Issues = append(*r.Issues, rtIssue{r.Method, r.Seed, r.Mode, kind, path, fmt.Sprintf(format, a...)})
	}
}

// Fill fills *ptr from the stream identified by label: the same label gives the same value again
// (independent storage), which is how deep copies and snapshots are made.
func (r *rtRun) Fill(ptr interface{}, label string) {
	h := r.base
	for _, c := range []byte(label) {
		h = (h ^ uint64(c)) * 1099511628211
	}
	f := newFiller(h, r.Mode, r.NoNil)
	f.fill(reflect.ValueOf(ptr).Elem(), 0)
}

// Begin prepares a run of the generated function ("got") or of the reference ("want").
func (r *rtRun) Begin() {
	tr.Reset()
	r.obs = nil
	r.refill = r.base ^ 0xabcdef
	tr.Observer = func(site string, args ...interface{}) {
		o := rtObs{Site: site}
		for _, a := range args {
			v := reflect.ValueOf(a)
			if v.IsValid() && v.Kind() == reflect.Ptr {
				o.Ptrs = append(o.Ptrs, v.Pointer())
			} else {
				o.Ptrs = append(o.Ptrs, 0)
			}
			o.Dumps = append(o.Dumps, dumpAny(a))
		}
		r.obs = append(r.obs, o)
		if r.stats != nil && (strings.HasPrefix(site, "pre") || strings.HasPrefix(site, "pos")) {
			r.stats.HookCalls++
		}
		// a preprocess hook that receives the destination by pointer overwrites every field of it:
		// fields the copy assigns must be overwritten afterwards, the others must keep these values
		if strings.HasPrefix(site, "pre") && len(args) > 0 {
			v := reflect.ValueOf(args[0])
			if v.IsValid() && v.Kind() == reflect.Ptr && !v.IsNil() {
				r.refill++
				f := newFiller(r.refill, modeRandom, true)
				f.fill(v.Elem(), 0)
			}
		}
	}
}

func (r *rtRun) EndGot()  { r.gotObs, r.gotTr = r.obs, append([]string{}, tr.Trace...); tr.Observer = nil }
func (r *rtRun) EndWant() { r.wantObs, r.wantTr = r.obs, append([]string{}, tr.Trace...); tr.Observer = nil }

func (r *rtRun) Recover() {
	if x := recover(); x != nil {
		r.Panic = fmt.Sprint(x)
	}
}

// CompareDst compares the written operand of the generated function with the reference's.
func (r *rtRun) CompareDst(got, want interface{}) {
	for _, d := range diffLeaves(dump(got), dump(want)) {
		p := d[:strings.Index(d, ":")]
		r.issue("dst-diff", p, "%s", d)
	}
}

// CompareUnchanged checks that an operand that must not be modified equals its snapshot.
func (r *rtRun) CompareUnchanged(what string, now, snap interface{}) {
	for _, d := range diffLeaves(dump(now), dump(snap)) {
		r.issue("operand-modified", what, "%s %s", what, d)
	}
}

func labelPtrs(obs []rtObs, w, rd uintptr) []string {
	var out []string
	for _, o := range obs {
		var ls []string
		for _, p := range o.Ptrs {
			switch {
			case p == 0:
				ls = append(ls, "val")
			case p == w:
				ls = append(ls, "W")
			case p == rd:
				ls = append(ls, "R")
			default:
				ls = append(ls, "other")
			}
		}
		out = append(out, o.Site+"("+strings.Join(ls, ",")+")")
	}
	return out
}

// CompareCalls compares traces (as multisets, with hooks first / last) and what the instrumented
// user functions observed. gw/gr and ww/wr are the addresses of the written / read operands of the two runs.
func (r *rtRun) CompareCalls(gw, gr, ww, wr uintptr, preSite, postSite string, strict bool) {
	// getters and String methods ("m:" sites) may be evaluated any number of times (the statements
	// speak about values, not about call counts): only function sites are compared as a multiset
	funcSites := func(tr []string) []string {
		var out []string
		for _, t := range tr {
			if !strings.Contains(t, "m:") {
				out = append(out, t)
			}
		}
		sort.Strings(out)
		return out
	}
	gs, ws := funcSites(r.gotTr), funcSites(r.wantTr)
	if !strict {
		// only the hooks are comparable
		onlyHooks := func(in []string) []string {
			var out []string
			for _, t := range in {
				s := strings.TrimPrefix(t, "E:")
				if s == preSite || s == postSite {
					out = append(out, t)
				}
			}
			return out
		}
		gs, ws = onlyHooks(gs), onlyHooks(ws)
	}
	if strings.Join(gs, "|") != strings.Join(ws, "|") {
		r.issue("trace", "", "instrumented calls differ: got %v want %v", r.gotTr, r.wantTr)
	}
	strip := func(s string) string { return strings.TrimPrefix(s, "E:") }
	if preSite != "" && (len(r.gotTr) == 0 || strip(r.gotTr[0]) != preSite) {
		r.issue("hook-order", "", "preprocess %s is not the first call: %v", preSite, r.gotTr)
	}
	if postSite != "" && (len(r.gotTr) == 0 || strip(r.gotTr[len(r.gotTr)-1]) != postSite) {
		r.issue("hook-order", "", "postprocess %s is not the last call: %v", postSite, r.gotTr)
	}
	for _, site := range []string{preSite, postSite} {
		if site == "" {
			continue
		}
		n := 0
		for _, t := range r.gotTr {
			if strip(t) == site {
				n++
			}
		}
		if n != 1 {
			r.issue("hook-order", "", "hook %s called %d times: %v", site, n, r.gotTr)
		}
	}
	// what the user functions saw: compare per site (order of field work is not specified)
	key := func(obs []rtObs, labels []string) []string {
		var out []string
		for i, o := range obs {
			out = append(out, labels[i]+" "+strings.Join(o.Dumps, " # "))
		}
		sort.Strings(out)
		return out
	}
	hookObs := func(obs []rtObs) []rtObs {
		if strict {
			return obs
		}
		var out []rtObs
		for _, o := range obs {
			if o.Site == preSite || o.Site == postSite {
				out = append(out, o)
			}
		}
		return out
	}
	r.gotObs, r.wantObs = hookObs(r.gotObs), hookObs(r.wantObs)
	g := key(r.gotObs, labelPtrs(r.gotObs, gw, gr))
	w := key(r.wantObs, labelPtrs(r.wantObs, ww, wr))
	if strings.Join(g, "\n") != strings.Join(w, "\n") {
		kind := "observed-args"
		for i := 0; i < len(g) && i < len(w); i++ {
			if g[i] != w[i] && (strings.HasPrefix(g[i], "pre") || strings.HasPrefix(g[i], "pos") || strings.HasPrefix(w[i], "pre") || strings.HasPrefix(w[i], "pos")) {
				kind = "hook-args"
				break
			}
		}
		if len(g) != len(w) {
			for _, x := range append(append([]string{}, g...), w...) {
				if strings.HasPrefix(x, "pre") || strings.HasPrefix(x, "pos") {
					kind = "hook-args"
				}
			}
		}
		r.issue(kind, "", "user functions observed different arguments\n got: %s\nwant: %s", strings.Join(g, " || "), strings.Join(w, " || "))
	}
}

// MutateSlice overwrites every element of a slice in place (aliasing probe).
func (r *rtRun) MutateSlice(s interface{}) {
	v := reflect.ValueOf(s)
	if !v.IsValid() || v.Kind() != reflect.Slice {
		return
	}
	f := newFiller(r.base^0x5151, modeDistinct, true)
	f.counter = 500
	for i := 0; i < v.Len(); i++ {
		f.fill(v.Index(i), 0)
	}
	// also the spare capacity, if any
	if v.Cap() > v.Len() {
		e := v.Slice(0, v.Cap())
		for i := v.Len(); i < v.Cap(); i++ {
			f.fill(e.Index(i), 0)
		}
	}
}

type rtCase struct {
	Name   string
	HasErr bool
	NoNil  bool
	Skip   string // non-empty: not executable / not observable (why)
	Run    func(r *rtRun)
	// Fault runs the generated function with the given fault plan on the value set of r and
	// returns the error it returned.
	Fault func(r *rtRun) error
}

var rtCases []rtCase

type rtReport struct {
	Issues []rtIssue          ` + "`json:\"issues\"`" + `
	Stats  map[string]rtStats ` + "`json:\"stats\"`" + `
}

func TestZZDriver(t *testing.T) {
	n, _ := strconv.Atoi(os.Getenv("VERIF_DRV_N"))
	if n == 0 {
		n = 12
	}
	seed0, _ := strconv.ParseUint(os.Getenv("VERIF_DRV_SEED"), 10, 64)
	only := os.Getenv("VERIF_DRV_ONLY")
	rep := rtReport{Stats: map[string]rtStats{}}
	for _, c := range rtCases {
		if only != "" && only != c.Name {
			continue
		}
		st := rtStats{}
		if c.Skip != "" {
			st.Skipped = 1
			rep.Stats[c.Name] = st
			continue
		}
		for s := 0; s < n; s++ {
			r := &rtRun{Method: c.Name, Seed: s, Mode: s % 3, NoNil: c.NoNil, Issues: &rep.Issues, stats: &st}
			r.base = (seed0+1)*0x9e3779b97f4a7c15 ^ uint64(s)*0xbf58476d1ce4e5b9
			c.Run(r)
			st.Runs++
			if !c.HasErr {
				for _, e := range r.gotTr {
					if strings.HasPrefix(e, "E:") {
						r.issue("error-capable-call-without-error-result", e, "function without error result calls the error-capable %s", e)
						break
					}
				}
			}
			if r.Mode == modeEdge {
				st.EdgeRuns++
			}
			if r.Panic != "" {
				st.Panics++
			}
			// fault enumeration (C07): every error-capable call site of the no-fault trace fails in turn
			if c.HasErr && c.Fault != nil && r.Panic == "" && s < 6 {
				t0 := append([]string{}, r.gotTr...)
				var epos []int
				for i, e := range t0 {
					if strings.HasPrefix(e, "E:") {
						epos = append(epos, i)
					}
				}
				if s == 0 {
					st.ErrSites = len(epos)
				}
				for k := 0; k < len(epos) && k < 8; k++ {
					sentinel := &tr.E{N: 7000 + k}
					fr := &rtRun{Method: c.Name, Seed: s, Mode: r.Mode, NoNil: c.NoNil, Issues: &rep.Issues, base: r.base}
					fr.Begin()
					tr.FailAt[k+1] = sentinel
					err := c.Fault(fr)
					fr.EndGot()
					st.FaultRuns++
					if fr.Panic != "" {
						fr.issue("fault-panic", "", "panic with call site #%d (%s) failing: %s", k+1, t0[epos[k]], fr.Panic)
						continue
					}
					if err != error(sentinel) {
						fr.issue("fault-error-not-returned", t0[epos[k]], "call site #%d (%s) returned an error; the function returned %v instead of that very error (trace %v)", k+1, t0[epos[k]], err, fr.gotTr)
					}
					want := t0[:epos[k]+1]
					if strings.Join(fr.gotTr, "|") != strings.Join(want, "|") {
						fr.issue("fault-later-call", t0[epos[k]], "after call site #%d (%s) failed the trace is %v, expected it to stop there: %v", k+1, t0[epos[k]], fr.gotTr, want)
					}
				}
			}
		}
		rep.Stats[c.Name] = st
	}
	b, _ := json.Marshal(rep)
	if p := os.Getenv("VERIF_DRV_OUT"); p != "" {
		if err := os.WriteFile(p, b, 0o644); err != nil {
			t.Fatal(err)
		}
	}
}
`
