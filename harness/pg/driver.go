package pg

import (
	"encoding/json"
	"fmt"
	"go/types"
	"os"
	"path/filepath"
	"regexp"
	"strings"
	"time"

	"verif/hx"
)

// The behavioural driver emitter: reference functions written from the plan (naive straight-line
// code in terms of the model, not of convergen's text) and one test case per method.

// DriverMethod is what the emitter needs about one method.
type DriverMethod struct {
	Plan   *Plan
	Chosen map[*Leaf]int // index of the alternative the tool realised (-1 = loose)
	Skip   string
	// AllowNil: run even nil-risk methods with nil pointers (only the replay archive of the open
	// nil-dereference finding sets it)
	AllowNil bool
}

func (p *Plan) qualifier() types.Qualifier {
	return func(pkg *types.Package) string {
		if pkg == p.Home {
			return ""
		}
		for _, k := range KnownPkgs {
			if k.Path == pkg.Path() {
				return k.Qual
			}
		}
		return pkg.Name()
	}
}

func (p *Plan) typeStr(t types.Type) string { return types.TypeString(t, p.qualifier()) }

// srcExpr renders a resolved source against the reference function's parameter names (r, a0, a1 …).
func (p *Plan) srcExpr(s *Source, rootR string, argPrefix string) string {
	root := rootR
	if s.Root > 0 {
		root = fmt.Sprintf("%s%d", argPrefix, s.Root-1)
	}
	if s.Path == "" {
		if s.Root == 0 && !p.SrcPtr {
			return "(*" + root + ")"
		}
		return root
	}
	return root + "." + s.Path
}

// NilRisk reports whether the realised alternatives dereference something that may be nil at run
// time (open finding: nil on an explicit source path / under String()).
func (dm *DriverMethod) NilRisk() bool {
	risk := false
	dm.Plan.Walk(func(l *Leaf) {
		i, ok := dm.Chosen[l]
		if !ok || i < 0 || i >= len(l.Alts) {
			if l.Explicit != "" && l.Explicit != "skip" {
				risk = true // open outcome under an explicit notation: whatever source the tool chose may be dereferenced
			}
			return
		}
		a := l.Alts[i]
		if a.Kind != "assign" || a.Src == nil {
			return
		}
		for _, h := range a.Src.PtrHops {
			if h != "" || a.Src.Root > 0 {
				risk = true
			}
		}
		// a pointer handed to a converter that is itself a generated function: that function expects a
		// non-nil operand (same family as the open nil finding: nil on an explicit source path)
		if strings.HasPrefix(a.Converter, "Convert") {
			risk = true // the callee runs on the caller's value set and may have nil-risk paths of its own
		}
		if a.Conv == "stringer" || a.ArgConv == "stringer" {
			switch a.Src.Type.Underlying().(type) {
			case *types.Pointer, *types.Interface:
				risk = true
			}
			if _, isPtr := a.Src.Type.(*types.Pointer); isPtr {
				risk = true
			}
		}
	})
	return risk
}

var reRetVar = regexp.MustCompile(`(?m)^var (ret_\w+) `)

type hookInfo struct {
	name   string
	site   string
	dstPtr bool
	srcPtr bool
	extras bool
	retErr bool
}

func (p *Plan) hook(prog *Prog, kind string) *hookInfo {
	for _, n := range p.Method.Notes {
		if n.Kind != kind || len(n.Args) == 0 {
			continue
		}
		f := lookupFunc(p.World, p.Home, prog.Imports, n.Args[0])
		if f == nil {
			return nil
		}
		sg := f.Type().(*types.Signature)
		if sg.Params().Len() < 2 {
			return nil
		}
		h := &hookInfo{name: n.Args[0], site: n.Args[0]} // instrumented functions log their name as written with its qualifier
		_, h.dstPtr = sg.Params().At(0).Type().(*types.Pointer)
		_, h.srcPtr = sg.Params().At(1).Type().(*types.Pointer)
		h.extras = sg.Params().Len() > 2
		h.retErr = sg.Results().Len() == 1
		return h
	}
	return nil
}

func isSliceLike(t types.Type) bool {
	_, ok := t.Underlying().(*types.Slice)
	return ok
}

// EmitCases renders home/zz_cases_test.go.
func EmitCases(prog *Prog, methods []*DriverMethod) string {
	var sb strings.Builder
	sb.WriteString("package home\n\nimport (\n\t\"unsafe\"\n\n")
	for _, k := range KnownPkgs {
		if k.Alias != "" {
			fmt.Fprintf(&sb, "\t%s %q\n", k.Alias, k.Path)
		} else {
			fmt.Fprintf(&sb, "\t%q\n", k.Path)
		}
	}
	sb.WriteString(")\n\nvar (\n\t_ ext.MyInt\n\t_ odd.OInt\n\t_ lib.LibInt\n\t_ am.AInt\n\t_ bm.BInt\n\t_ oh.Rec\n\t_ = hooks.Finalize\n\t_ = hooksv2.Finalize\n\t_ = dotfn.DotIntToStr\n\t_ e.Code\n\t_ audit.Stamp\n\t_ = tr.Reset\n\t_ unsafe.Pointer\n)\n\n")
	retVars := reRetVar.FindAllStringSubmatch(prog.HomeFuncs+"\n"+prog.SetupFuncs, -1)
	for _, dm := range methods {
		emitMethod(&sb, prog, dm, retVars)
	}
	return sb.String()
}

func emitMethod(sb *strings.Builder, prog *Prog, dm *DriverMethod, retVars [][]string) {
	p := dm.Plan
	m := p.Method
	name := m.Name
	if m.Recv != "" {
		name = strings.TrimPrefix(strings.ReplaceAll(m.SrcType, ".", "_"), "*") + "_" + m.Name
	}
	WT, RT := p.typeStr(p.DstType), p.typeStr(p.SrcType)
	var params, argsG, argsW, fills, unchanged strings.Builder
	for i, et := range p.Extras {
		ts := p.typeStr(et)
		fmt.Fprintf(&params, ", a%d %s", i, ts)
		fmt.Fprintf(&argsG, ", a%dG", i)
		fmt.Fprintf(&argsW, ", a%dW", i)
		fmt.Fprintf(&fills, "\t\tvar a%[1]dG, a%[1]dW, a%[1]dS %[2]s\n\t\tx.Fill(&a%[1]dG, \"a%[1]d\")\n\t\tx.Fill(&a%[1]dW, \"a%[1]d\")\n\t\tx.Fill(&a%[1]dS, \"a%[1]d\")\n", i, ts)
		fmt.Fprintf(&unchanged, "\t\tx.CompareUnchanged(\"additional argument %[1]d\", &a%[1]dG, &a%[1]dS)\n", i)
	}
	pre, post := p.hook(prog, "preprocess"), p.hook(prog, "postprocess")

	// ---- reference function ----
	fmt.Fprintf(sb, "// reference for %s: %s\nfunc ref_%s(w *%s, r *%s, g *%s%s) (err error) {\n", m.Name, strings.Join(m.NotationLines(), "; "), name, WT, RT, WT, params.String())
	hookCall := func(h *hookInfo) {
		d, s := "w", "r"
		if !h.dstPtr {
			d = "*w"
		}
		if !h.srcPtr {
			s = "*r"
		}
		call := fmt.Sprintf("%s(%s, %s", DriverFuncName(h.name), d, s)
		if h.extras {
			for i := range p.Extras {
				call += fmt.Sprintf(", a%d", i)
			}
		}
		call += ")"
		if h.retErr {
			fmt.Fprintf(sb, "\tif e := %s; e != nil {\n\t\treturn e\n\t}\n", call)
		} else {
			fmt.Fprintf(sb, "\t%s\n", call)
		}
	}
	if pre != nil {
		hookCall(pre)
	}
	var loose, sliceLeaves []*Leaf
	sliceSrc := map[*Leaf]*Source{}
	p.Walk(func(l *Leaf) {
		if l.Descend {
			return
		}
		i, ok := dm.Chosen[l]
		if ok && i == -2 && len(l.Alts) > 0 {
			// the tool realised none of the acceptable alternatives: the reference follows the first of them,
			// so that the wrong value is also seen at run time
			i = 0
		}
		if !ok || i < 0 || i >= len(l.Alts) {
			// outcome left open by the statements: take whatever the generated function produced (g is its
			// result), at the field's position, so that a postprocess hook sees the same state in both runs
			loose = append(loose, l)
			fmt.Fprintf(sb, "\tw.%[1]s = g.%[1]s // open outcome: %s\n", l.Path, strings.ReplaceAll(l.Why, "\n", " "))
			return
		}
		a := l.Alts[i]
		if a.Kind != "assign" {
			return
		}
		lhs := "w." + l.Path
		LT := p.typeStr(l.Type)
		if a.Literal != "" {
			fmt.Fprintf(sb, "\t%s = %s\n", lhs, a.Literal)
			return
		}
		src := p.srcExpr(a.Src, "r", "a")
		if a.Converter != "" {
			arg := src
			switch {
			case a.ArgAddr:
				arg = "&" + src
			case a.ArgConv == "stringer":
				arg = src + ".String()"
			case a.ArgConv == "typecast":
				arg = fmt.Sprintf("(%s)(%s)", p.typeStr(p.Conv[a.Converter].Params().At(0).Type()), src)
			}
			call := fmt.Sprintf("%s(%s)", DriverFuncName(a.Converter), arg)
			if a.ConvErr {
				fmt.Fprintf(sb, "\t{\n\t\tv, e := %s\n\t\tif e != nil {\n\t\t\treturn e\n\t\t}\n\t\t%s = v\n\t}\n", call, lhs)
				return
			}
			switch a.Conv {
			case "stringer":
				call += ".String()"
			case "typecast":
				call = fmt.Sprintf("(%s)(%s)", LT, call)
			}
			fmt.Fprintf(sb, "\t%s = %s\n", lhs, call)
			return
		}
		if a.Src.RetErr {
			fmt.Fprintf(sb, "\t{\n\t\tv, e := %s\n\t\tif e != nil {\n\t\t\treturn e\n\t\t}\n\t\t%s = v\n\t}\n", src, lhs)
			return
		}
		if a.Slice != "" {
			et := p.typeStr(sliceElem(l.Type))
			conv := "s[i]"
			if a.Slice == "convert" {
				conv = fmt.Sprintf("(%s)(s[i])", et)
			}
			fmt.Fprintf(sb, "\tif s := %s; s != nil {\n\t\td := make(%s, len(s))\n\t\tfor i := range s {\n\t\t\td[i] = %s\n\t\t}\n\t\t%s = d\n\t}\n", src, LT, conv, lhs)
			sliceLeaves = append(sliceLeaves, l)
			sliceSrc[l] = a.Src
			return
		}
		if isSliceLike(l.Type) && isSliceLike(a.Src.Type) && a.Conv == "" && l.Explicit == "" {
			// a slice assigned as a value (named slice types): C16 probes it for aliasing all the same
			sliceLeaves = append(sliceLeaves, l)
			sliceSrc[l] = a.Src
		}
		switch a.Conv {
		case "stringer":
			src += ".String()"
		case "typecast":
			src = fmt.Sprintf("(%s)(%s)", LT, src)
		}
		fmt.Fprintf(sb, "\t%s = %s\n", lhs, src)
	})
	if post != nil {
		hookCall(post)
	}
	sb.WriteString("\treturn nil\n}\n\n")

	// ---- the case ----
	skip := dm.Skip
	writtenPtr := p.DstPtr // pointer-ness of the written operand as declared
	retStyle := p.Eff.Style != "arg"
	if m.Reverse && !writtenPtr {
		skip = "reversed method whose written operand is passed by value: no observable effect"
	}
	prefill := !retStyle
	// how the generated function is called
	var call string
	srcArg := "rG"
	if !m.Reverse {
		if p.SrcPtr {
			srcArg = "&rG"
		}
		fn := m.Name + "(" + srcArg
		if m.Recv != "" {
			fn = "(" + srcArg + ")." + m.Name + "("
		}
		join := func(first string, rest string) string {
			rest = strings.TrimPrefix(rest, ", ")
			switch {
			case first == "" || strings.HasSuffix(first, "("):
				return first + rest
			case rest == "":
				return first
			}
			return first + ", " + rest
		}
		if retStyle {
			c := join(fn, argsG.String()) + ")"
			if m.RetErr {
				call = "ret, e := " + c + "\n\t\t\tgotErr = e\n"
			} else {
				call = "ret := " + c + "\n"
			}
			if p.DstPtr {
				// T7: on the error path the destination result is unspecified (nil is fine)
				call += "\t\t\tif ret == nil {\n\t\t\t\tif gotErr == nil {\n\t\t\t\t\tx.Panic = \"nil result without error\"\n\t\t\t\t}\n\t\t\t} else {\n\t\t\t\tgwp = ret\n\t\t\t}\n"
			} else {
				call += "\t\t\twG = ret\n"
			}
		} else {
			var c string
			if m.Recv != "" {
				c = join("("+srcArg+")."+m.Name+"(&wG", argsG.String()) + ")"
			} else {
				c = join(m.Name+"(&wG, "+srcArg, argsG.String()) + ")"
			}
			if m.RetErr {
				call = "gotErr = " + c + "\n"
			} else {
				call = c + "\n"
			}
		}
	} else {
		wArg := "&wG"
		if !writtenPtr {
			wArg = "wG"
		}
		c := m.Name + "(&rG, " + wArg + ")"
		if m.Recv != "" {
			c = "(" + wArg + ")." + m.Name + "(&rG)"
		}
		if m.RetErr {
			call = "gotErr = " + c + "\n"
		} else {
			call = c + "\n"
		}
	}
	// pointer identities that are observable
	gw, gr, ww, wr := "uintptr(unsafe.Pointer(gwp))", "uintptr(unsafe.Pointer(&rG))", "uintptr(unsafe.Pointer(&wW))", "uintptr(unsafe.Pointer(&rW))"
	if retStyle && !p.DstPtr {
		gw, ww = "0", "0"
	}
	if !m.Reverse && !p.SrcPtr {
		gr, wr = "0", "0"
	}
	setup := func(indent string) string {
		var s strings.Builder
		fmt.Fprintf(&s, "%svar wG, wW %s\n%svar rG, rW, rS %s\n", indent, WT, indent, RT)
		if prefill {
			fmt.Fprintf(&s, "%sx.Fill(&wG, \"w\")\n%sx.Fill(&wW, \"w\")\n", indent, indent)
		}
		fmt.Fprintf(&s, "%sx.Fill(&rG, \"r\")\n%sx.Fill(&rW, \"r\")\n%sx.Fill(&rS, \"r\")\n", indent, indent, indent)
		s.WriteString(strings.ReplaceAll(fills.String(), "\t\t", indent))
		for _, rv := range retVars {
			fmt.Fprintf(&s, "%sx.Fill(&%s, %q)\n", indent, rv[1], rv[1])
		}
		fmt.Fprintf(&s, "%sgwp := &wG\n%s_, _, _ = rW, rS, wW\n", indent, indent)
		return s.String()
	}
	preSite, postSite := "", ""
	if pre != nil {
		preSite = pre.site
	}
	if post != nil {
		postSite = post.site
	}
	fmt.Fprintf(sb, "func init() {\n\trtCases = append(rtCases, rtCase{Name: %q, HasErr: %v, NoNil: %v, Skip: %q,\n\tRun: func(x *rtRun) {\n", m.Name, m.RetErr, dm.NilRisk() && !dm.AllowNil, skip)
	sb.WriteString(setup("\t\t"))
	sb.WriteString("\t\tvar gotErr, wantErr error\n\t\tx.Begin()\n\t\tfunc() {\n\t\t\tdefer x.Recover()\n\t\t\t" + call + "\t\t}()\n\t\tx.EndGot()\n")
	sb.WriteString("\t\tif x.Panic != \"\" {\n\t\t\tx.issue(\"panic\", \"\", \"generated function panics: %s\", x.Panic)\n\t\t\treturn\n\t\t}\n")
	fmt.Fprintf(sb, "\t\tx.Begin()\n\t\twantErr = ref_%s(&wW, &rW, gwp%s)\n\t\tx.EndWant()\n", name, argsW.String())
	sb.WriteString("\t\tif gotErr != nil || wantErr != nil {\n\t\t\tx.issue(\"unexpected-error\", \"\", \"no fault injected but error returned: got %v, reference %v\", gotErr, wantErr)\n\t\t\treturn\n\t\t}\n")
	for _, l := range sliceLeaves {
		se := p.srcExpr(sliceSrc[l], "rS", "a")
		se = regexp.MustCompile(`\ba(\d)\b`).ReplaceAllString(se, "a${1}S")
		// T11: empty non-nil source - nil-ness of the result is unspecified; nil source - "left as it was or nil"
		fmt.Fprintf(sb, "\t\tif s := %[1]s; s != nil && len(s) == 0 && len(gwp.%[2]s) == 0 {\n\t\t\twW.%[2]s = gwp.%[2]s\n\t\t} else if s == nil {\n\t\t\tx.stats.NilSlices++\n\t\t\tif gwp.%[2]s == nil {\n\t\t\t\twW.%[2]s = nil\n\t\t\t}\n\t\t}\n", se, l.Path)
	}
	sb.WriteString("\t\tx.CompareDst(gwp, &wW)\n\t\tx.CompareUnchanged(\"source operand\", &rG, &rS)\n")
	sb.WriteString(unchanged.String())
	strict := true
	if len(loose) > 0 {
		strict = false // which converter/getter serves an open outcome is not known to the reference
	}
	fmt.Fprintf(sb, "\t\tx.CompareCalls(%s, %s, %s, %s, %q, %q, %v)\n", gw, gr, ww, wr, preSite, postSite, strict)
	for _, l := range sliceLeaves {
		se := p.srcExpr(sliceSrc[l], "rG", "a")
		se = regexp.MustCompile(`\ba(\d)\b`).ReplaceAllString(se, "a${1}G")
		fmt.Fprintf(sb, "\t\tif s := %[1]s; len(s) > 0 && len(gwp.%[2]s) > 0 {\n\t\t\tx.stats.AliasProbes++\n\t\t\tbefore := dumpAny(gwp.%[2]s)\n\t\t\tx.MutateSlice(s)\n\t\t\tif dumpAny(gwp.%[2]s) != before {\n\t\t\t\tx.issue(\"slice-aliased\", %[3]q, \"writing to the elements of the source slice %[4]s changes destination field %[2]s\")\n\t\t\t} else {\n\t\t\t\tsb := dumpAny(s)\n\t\t\t\tx.MutateSlice(gwp.%[2]s)\n\t\t\t\tif dumpAny(s) != sb {\n\t\t\t\t\tx.issue(\"slice-aliased\", %[3]q, \"writing to the elements of destination field %[2]s changes the source slice %[4]s\")\n\t\t\t\t}\n\t\t\t}\n\t\t}\n", se, l.Path, l.Path, sliceSrc[l].Path)
	}
	sb.WriteString("\t},\n")
	if m.RetErr && skip == "" {
		sb.WriteString("\tFault: func(x *rtRun) (gotErr error) {\n")
		sb.WriteString(setup("\t\t"))
		sb.WriteString("\t\tdefer x.Recover()\n\t\t" + strings.ReplaceAll(call, "\t\t\t", "\t\t") + "\t\t_ = gwp\n\t\treturn gotErr\n\t},\n")
	}
	sb.WriteString("\t})\n}\n\n")
}

// DriverReport is what the emitted test writes.
type DriverReport struct {
	Issues []struct {
		Method string `json:"method"`
		Seed   int    `json:"seed"`
		Mode   int    `json:"mode"`
		Kind   string `json:"kind"`
		Path   string `json:"path"`
		Detail string `json:"detail"`
	} `json:"issues"`
	Stats map[string]map[string]int `json:"stats"`
}

// RunDriver writes the driver into the scratch module (which already holds the output of a
// convergen run) and executes it with `go test`.
func RunDriver(dir string, cases string, n int, seed uint64) (*DriverReport, string, error) {
	if err := os.WriteFile(filepath.Join(dir, "home", "zz_rt_test.go"), []byte(RtSrc), 0o644); err != nil {
		return nil, "", err
	}
	if err := os.WriteFile(filepath.Join(dir, "home", "zz_cases_test.go"), []byte(cases), 0o644); err != nil {
		return nil, "", err
	}
	hx.ScratchCacheTick()
	out := filepath.Join(dir, "zz_report.json")
	res := hx.Run("go", hx.RunOpts{Dir: dir, Args: []string{"test", "-count=1", "-vet=off", "-run", "^TestZZDriver$", "./home/"},
		Env: []string{"VERIF_DRV_OUT=" + out, fmt.Sprintf("VERIF_DRV_N=%d", n), fmt.Sprintf("VERIF_DRV_SEED=%d", seed)}, Timeout: 240 * time.Second})
	if res.TimedOut {
		return nil, "timeout", nil
	}
	b, err := os.ReadFile(out)
	if err != nil {
		return nil, res.Stdout + res.Stderr, fmt.Errorf("driver produced no report (exit %d)", res.Exit)
	}
	var rep DriverReport
	if err := json.Unmarshal(b, &rep); err != nil {
		return nil, res.Stdout + res.Stderr, err
	}
	return &rep, res.Stdout + res.Stderr, nil
}
