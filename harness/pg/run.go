package pg

import (
	"go/ast"
	"go/format"
	"go/parser"
	"go/token"
	"os"
	"path/filepath"
	"regexp"
	"strings"
	"time"

	"verif/hx"
)

// Outcome is what one convergen run over a scratch module produced.
type Outcome struct {
	Dir    string // module root
	Res    hx.Result
	Out    string // content of the output file ("" when absent)
	HasOut bool
}

// ScratchPrefix names the scratch module directories. C05 sets a prefix with per-cent signs: the path of the setup
// file is data in every diagnostic, never part of a format string.
var ScratchPrefix = "m"

// RunModule materialises files into a fresh directory and runs the binary on the setup file from
// the module root with the default flags.
func RunModule(env *hx.Env, files hx.Files, args ...string) (*Outcome, error) {
	dir := env.Scratch(ScratchPrefix)
	if err := hx.WriteTree(dir, files); err != nil {
		return nil, err
	}
	if len(args) == 0 {
		args = []string{SetupPath}
	}
	res := hx.Run(env.Bin, hx.RunOpts{Dir: dir, Args: args, Timeout: 60 * time.Second})
	o := &Outcome{Dir: dir, Res: res}
	b, err := os.ReadFile(filepath.Join(dir, OutPath))
	if err == nil {
		o.Out, o.HasOut = string(b), true
	}
	return o, nil
}

// RunModuleEnv is RunModule with extra environment variables and exactly the given arguments (none means none).
func RunModuleEnv(env *hx.Env, files hx.Files, extraEnv []string, args ...string) (*Outcome, error) {
	dir := env.Scratch(ScratchPrefix)
	if err := hx.WriteTree(dir, files); err != nil {
		return nil, err
	}
	res := hx.Run(env.Bin, hx.RunOpts{Dir: dir, Args: args, Env: extraEnv, Timeout: 60 * time.Second})
	o := &Outcome{Dir: dir, Res: res}
	b, err := os.ReadFile(filepath.Join(dir, OutPath))
	if err == nil {
		o.Out, o.HasOut = string(b), true
	}
	return o, nil
}

// Cleanup removes the scratch module.
func (o *Outcome) Cleanup() { _ = os.RemoveAll(o.Dir) }

// GofmtClean reports whether src is unchanged by gofmt.
func GofmtClean(src string) bool {
	b, err := format.Source([]byte(src))
	return err == nil && string(b) == src
}

var rePos = regexp.MustCompile(`^(\S+\.go):(\d+):(\d+): (.*)$`)

// CompileError is one diagnostic of the Go compiler.
type CompileError struct {
	File string
	Line int
	Msg  string
	Func string // enclosing function of the output file, when known
}

// BuildTimeout is what Build reports as raw output when the compiler was killed by the time limit.
const BuildTimeout = "timeout: go build did not finish"

// Build compiles the home package of the scratch module under the ordinary build.
func Build(dir string) (bool, []CompileError, string) {
	hx.ScratchCacheTick()
	r := hx.GoTool(dir, 180*time.Second, "build", "-gcflags=-e", "./home/")
	if r.Exit == 0 {
		return true, nil, ""
	}
	if r.TimedOut || r.Signaled {
		return false, nil, BuildTimeout // the compiler did not finish (busy machine): no verdict
	}
	var errs []CompileError
	for _, ln := range strings.Split(r.Stderr+"\n"+r.Stdout, "\n") {
		m := rePos.FindStringSubmatch(strings.TrimSpace(ln))
		if m == nil {
			continue
		}
		errs = append(errs, CompileError{File: m[1], Line: atoi(m[2]), Msg: m[4]})
	}
	return false, errs, r.Stderr + r.Stdout
}

func atoi(s string) int {
	n := 0
	for _, c := range s {
		n = n*10 + int(c-'0')
	}
	return n
}

// FuncAtLine finds the function declaration of src that spans the given line.
func FuncAtLine(src string, line int) string {
	fset := token.NewFileSet()
	f, err := parser.ParseFile(fset, "out.go", src, parser.SkipObjectResolution)
	if f == nil || err != nil && f == nil {
		return ""
	}
	for _, d := range f.Decls {
		if fd, ok := d.(*ast.FuncDecl); ok {
			if fset.Position(fd.Pos()).Line <= line && line <= fset.Position(fd.End()).Line {
				return fd.Name.Name
			}
		}
	}
	return ""
}

var reWord = regexp.MustCompile(`[\pL_][\pL\pN_]*`)

var compilerWords = map[string]bool{}

func init() {
	for _, w := range strings.Fields(`cannot use as value in argument to assignment convert type undefined not enough arguments call too many
		return values have want mismatch assign variable declared and unused imported missing invalid operation operator pointer method
		field or has no non name on left side of syntax error unexpected expected expecting multiple single context untyped nil constant
		truncated overflows struct literal unknown implement does is interface dereference indirect address take the for refer unexported
		redeclared block other declaration result parameter receiver base defined with range over func returns count selector ambiguous
		index slice map chan string int array compare comparison mismatched types initialization cycle loop label unreachable code
		package import used after newline composite element key duplicate case assertion impossible need needs got`) {
		compilerWords[w] = true
	}
}

// NormalizeCompilerMsg reduces a compiler message to its vocabulary: every word that is not part of
// the compiler's own wording (identifiers, types, literals) becomes "_", so the same kind of error
// has the same text whatever names are involved.
func NormalizeCompilerMsg(msg string) string {
	var out []string
	for _, w := range reWord.FindAllString(msg, -1) {
		if compilerWords[w] {
			out = append(out, w)
		} else if len(out) == 0 || out[len(out)-1] != "_" {
			out = append(out, "_")
		}
	}
	m := strings.Join(out, " ")
	if len(m) > 80 {
		m = m[:80]
	}
	return m
}
