// Package pg is Engine P: the program model, its emitters, the harness's own type-check of
// generated modules, the reference planner and the behavioural driver emitter.
package pg

import (
	"fmt"
	"go/ast"
	"go/importer"
	"go/parser"
	"go/token"
	"go/types"
	"path"
	"sort"
	"strings"

	"verif/hx"
)

// ModulePath is the module path of every generated scratch module.
const ModulePath = "example.com/m"

// World is the harness's own go/types view of a scratch module (nothing from convergen is used).
type World struct {
	Fset   *token.FileSet
	Files  hx.Files
	Module string
	// Tagged: include files that carry "//go:build convergen" (the view convergen has) and exclude
	// the named output file; otherwise the ordinary build (tagged files excluded).
	Tagged  bool
	Exclude map[string]bool // file names to leave out (e.g. the output path in the tagged view)
	pkgs    map[string]*types.Package
	Infos   map[string]*types.Info
	Syntax  map[string][]*ast.File
	Errors  []error
	std     types.Importer
	loading map[string]bool
}

// NewWorld prepares a type-check view over in-memory files.
func NewWorld(files hx.Files, tagged bool, exclude ...string) *World {
	w := &World{Fset: token.NewFileSet(), Files: files, Module: ModulePath, Tagged: tagged, Exclude: map[string]bool{},
		pkgs: map[string]*types.Package{}, Infos: map[string]*types.Info{}, Syntax: map[string][]*ast.File{}, loading: map[string]bool{}}
	for _, e := range exclude {
		w.Exclude[e] = true
	}
	for _, f := range files {
		if f.Name == "go.mod" {
			for _, ln := range strings.Split(f.Data, "\n") {
				if strings.HasPrefix(ln, "module ") {
					w.Module = strings.TrimSpace(strings.TrimPrefix(ln, "module "))
				}
			}
		}
	}
	return w
}

// IsTaggedSource reports whether a Go source carries the convergen build constraint.
func IsTaggedSource(src string) bool {
	for _, ln := range strings.Split(src, "\n") {
		t := strings.TrimSpace(ln)
		if strings.HasPrefix(t, "package ") {
			return false
		}
		if strings.HasPrefix(t, "//go:build") && strings.Contains(t, "convergen") {
			return true
		}
		if strings.HasPrefix(t, "// +build") && strings.Contains(t, "convergen") {
			return true
		}
	}
	return false
}

// Import implements types.Importer over the module's files; other paths go to the source importer
// of the standard library (slow; generated programs avoid std imports).
func (w *World) Import(ipath string) (*types.Package, error) {
	if ipath == "unsafe" {
		return types.Unsafe, nil
	}
	if p, ok := w.pkgs[ipath]; ok {
		return p, nil
	}
	if ipath != w.Module && !strings.HasPrefix(ipath, w.Module+"/") {
		if w.std == nil {
			w.std = importer.ForCompiler(w.Fset, "source", nil)
		}
		return w.std.Import(ipath)
	}
	if w.loading[ipath] {
		return nil, fmt.Errorf("import cycle through %s", ipath)
	}
	w.loading[ipath] = true
	defer delete(w.loading, ipath)
	dir := strings.TrimPrefix(strings.TrimPrefix(ipath, w.Module), "/")
	var files []*ast.File
	var names []string
	for _, f := range w.Files {
		if !strings.HasSuffix(f.Name, ".go") || strings.HasSuffix(f.Name, "_test.go") || path.Dir(f.Name) != dirOrDot(dir) {
			continue
		}
		if w.Exclude[f.Name] {
			continue
		}
		if IsTaggedSource(f.Data) != w.Tagged && IsTaggedSource(f.Data) {
			continue
		}
		names = append(names, f.Name)
	}
	sort.Strings(names)
	for _, n := range names {
		src, _ := w.Files.Get(n)
		af, err := parser.ParseFile(w.Fset, n, src, parser.ParseComments)
		if err != nil {
			w.Errors = append(w.Errors, err)
			if af == nil {
				continue
			}
		}
		files = append(files, af)
	}
	if len(files) == 0 {
		return nil, fmt.Errorf("no Go files for %s", ipath)
	}
	info := &types.Info{Types: map[ast.Expr]types.TypeAndValue{}, Defs: map[*ast.Ident]types.Object{}, Uses: map[*ast.Ident]types.Object{},
		Selections: map[*ast.SelectorExpr]*types.Selection{}}
	conf := types.Config{Importer: w, Error: func(err error) {
		// A setup file may import a package only for the sake of its notations (README: "should have been
		// imported anyhow"); under an alias that import is unused for the type checker. convergen does not care.
		if strings.Contains(err.Error(), "imported and not used") || strings.Contains(err.Error(), "imported as") && strings.Contains(err.Error(), "and not used") {
			return
		}
		w.Errors = append(w.Errors, err)
	}}
	pkg, _ := conf.Check(ipath, w.Fset, files, info)
	w.pkgs[ipath] = pkg
	w.Infos[ipath] = info
	w.Syntax[ipath] = files
	return pkg, nil
}

func dirOrDot(d string) string {
	if d == "" {
		return "."
	}
	return d
}

// Pkg loads (type-checks) a package of the module by its directory relative to the module root.
func (w *World) Pkg(dir string) *types.Package {
	ip := w.Module
	if dir != "" && dir != "." {
		ip += "/" + dir
	}
	p, err := w.Import(ip)
	if err != nil {
		w.Errors = append(w.Errors, err)
		return nil
	}
	return p
}

// Struct looks up a named struct type "Name" in package dir.
func (w *World) Named(dir, name string) *types.Named {
	p := w.Pkg(dir)
	if p == nil {
		return nil
	}
	o := p.Scope().Lookup(name)
	if o == nil {
		return nil
	}
	n, _ := o.Type().(*types.Named)
	return n
}

// ErrText joins the collected type errors.
func (w *World) ErrText() string {
	var sb strings.Builder
	for i, e := range w.Errors {
		if i >= 12 {
			fmt.Fprintf(&sb, "... %d more\n", len(w.Errors)-i)
			break
		}
		sb.WriteString(e.Error())
		sb.WriteString("\n")
	}
	return sb.String()
}
