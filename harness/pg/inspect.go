package pg

import (
	"bytes"
	"go/ast"
	"go/parser"
	"go/printer"
	"go/token"
	"strings"
)

// Write is one assignment statement of a generated function whose left-hand side is a proper field
// path of a variable.
type Write struct {
	Root    string // variable the path hangs off
	Path    string // "A.B" (index expressions stripped)
	Indexed bool   // the LHS was root.path[i]
	RHS     string // printed right-hand side
	WithErr bool   // "x, err = ..."
	Kind    string // plain | make | alloc (&T{}) | nil
	// decomposition of RHS for plain writes
	SrcRoot string // variable the source expression hangs off ("" when not a selector chain)
	SrcPath string // "N.Get()" style path
	Conv    string // "", "typecast", "stringer", "stringer+typecast", "call:<func>" (converter), "literal"
	CastTo  string // printed target type of a typecast
	Depth   int    // nesting depth of the statement (0 = top level of the body)
	TopStmt int    // index of the enclosing top-level statement
}

// FuncInfo is what the inspector extracts from one generated function.
type FuncInfo struct {
	Name     string
	Recv     string // receiver base type name
	RecvVar  string
	Params   []string // parameter names in order
	Results  []string
	Writes   []Write
	Skips    []string // expression texts of "// skip: X"
	NoMatch  []string // expression texts of "// no match: X"
	Calls    []string // printed call statements that are not assignments (hooks)
	Body     string
	Decl     string // whole declaration text
	StartLn  int
	HasErr   bool
	ErrCheck int // number of "if err != nil" statements
}

func printNode(fset *token.FileSet, n ast.Node) string {
	var buf bytes.Buffer
	_ = printer.Fprint(&buf, fset, n)
	return buf.String()
}

// selectorPath decomposes root.a.b().c into ("root", "a.b().c").
func selectorPath(e ast.Expr) (root, path string, ok bool) {
	switch x := e.(type) {
	case *ast.Ident:
		return x.Name, "", true
	case *ast.SelectorExpr:
		r, p, ok := selectorPath(x.X)
		if !ok {
			return "", "", false
		}
		if p == "" {
			return r, x.Sel.Name, true
		}
		return r, p + "." + x.Sel.Name, true
	case *ast.CallExpr:
		if len(x.Args) != 0 {
			return "", "", false
		}
		r, p, ok := selectorPath(x.Fun)
		if !ok || p == "" {
			return "", "", false
		}
		return r, p + "()", true
	case *ast.ParenExpr:
		return selectorPath(x.X)
	}
	return "", "", false
}

func isTypeExpr(e ast.Expr) bool {
	switch x := e.(type) {
	case *ast.Ident:
		return true
	case *ast.SelectorExpr:
		_, ok := x.X.(*ast.Ident)
		return ok
	case *ast.ParenExpr:
		return isTypeExpr(x.X)
	case *ast.StarExpr:
		return isTypeExpr(x.X)
	case *ast.ArrayType, *ast.MapType, *ast.InterfaceType, *ast.FuncType, *ast.ChanType, *ast.StructType:
		return true
	case *ast.IndexExpr:
		// an instantiated generic type: Box[int], ext.Box[int]
		return isTypeExpr(x.X) && isTypeExpr(x.Index)
	case *ast.IndexListExpr:
		if !isTypeExpr(x.X) {
			return false
		}
		for _, ix := range x.Indices {
			if !isTypeExpr(ix) {
				return false
			}
		}
		return true
	}
	return false
}

// decomposeRHS classifies a right-hand side expression.
func decomposeRHS(fset *token.FileSet, e ast.Expr, vars map[string]bool, w *Write) {
	conv := ""
	cur := e
	for {
		if p, ok := cur.(*ast.ParenExpr); ok {
			cur = p.X
			continue
		}
		call, ok := cur.(*ast.CallExpr)
		if !ok {
			break
		}
		// x.String()
		if sel, ok := call.Fun.(*ast.SelectorExpr); ok && sel.Sel.Name == "String" && len(call.Args) == 0 {
			if r, _, ok2 := selectorPath(sel.X); ok2 && vars[r] {
				if conv == "" {
					conv = "stringer"
				} else {
					conv = "stringer+" + conv
				}
				cur = sel.X
				continue
			}
		}
		// getter chain rooted at a variable: handled by selectorPath below
		if r, _, ok2 := selectorPath(call); ok2 && vars[r] {
			break
		}
		if len(call.Args) == 1 && isTypeExpr(call.Fun) {
			fn := printNode(fset, call.Fun)
			// a one-argument call of a plain identifier may be a converter or a typecast; the caller
			// decides by name (converters are known to the harness)
			if conv == "" {
				conv = "typecast"
			} else {
				conv = conv + "+typecast"
			}
			w.CastTo = fn
			cur = call.Args[0]
			if u, ok := cur.(*ast.UnaryExpr); ok && u.Op == token.AND {
				cur = u.X
			}
			continue
		}
		break
	}
	if u, ok := cur.(*ast.UnaryExpr); ok && u.Op == token.AND {
		cur = u.X
	}
	if r, p, ok := selectorPath(cur); ok && vars[r] {
		w.SrcRoot, w.SrcPath = r, p
	}
	w.Conv = conv
}

// InspectOutput extracts the generated functions of an output file.
func InspectOutput(src string) (map[string]*FuncInfo, error) {
	fset := token.NewFileSet()
	f, err := parser.ParseFile(fset, "out.go", src, parser.ParseComments)
	if err != nil {
		return nil, err
	}
	out := map[string]*FuncInfo{}
	for _, d := range f.Decls {
		fd, ok := d.(*ast.FuncDecl)
		if !ok || fd.Body == nil {
			continue
		}
		fi := &FuncInfo{Name: fd.Name.Name, StartLn: fset.Position(fd.Pos()).Line}
		vars := map[string]bool{}
		if fd.Recv != nil && len(fd.Recv.List) == 1 {
			fi.Recv = recvName(fd.Recv.List[0].Type)
			if len(fd.Recv.List[0].Names) == 1 {
				fi.RecvVar = fd.Recv.List[0].Names[0].Name
				vars[fi.RecvVar] = true
			}
		}
		for _, p := range fd.Type.Params.List {
			for _, n := range p.Names {
				fi.Params = append(fi.Params, n.Name)
				vars[n.Name] = true
			}
		}
		if fd.Type.Results != nil {
			for _, p := range fd.Type.Results.List {
				for _, n := range p.Names {
					fi.Results = append(fi.Results, n.Name)
					vars[n.Name] = true
					if n.Name == "err" {
						fi.HasErr = true
					}
				}
			}
		}
		start, end := fset.Position(fd.Pos()).Offset, fset.Position(fd.End()).Offset
		fi.Decl = src[start:end]
		fi.Body = src[fset.Position(fd.Body.Lbrace).Offset:end]
		// comments inside the body
		for _, cg := range f.Comments {
			if cg.Pos() < fd.Body.Lbrace || cg.End() > fd.Body.Rbrace {
				continue
			}
			for _, c := range cg.List {
				t := strings.TrimSpace(strings.TrimPrefix(c.Text, "//"))
				if strings.HasPrefix(t, "skip:") {
					fi.Skips = append(fi.Skips, strings.TrimSpace(strings.TrimPrefix(t, "skip:")))
				} else if strings.HasPrefix(t, "no match:") {
					fi.NoMatch = append(fi.NoMatch, strings.TrimSpace(strings.TrimPrefix(t, "no match:")))
				}
			}
		}
		var walk func(stmts []ast.Stmt, depth, top int)
		walk = func(stmts []ast.Stmt, depth, top int) {
			for i, st := range stmts {
				ts := top
				if depth == 0 {
					ts = i
				}
				switch s := st.(type) {
				case *ast.AssignStmt:
					if len(s.Lhs) == 0 || len(s.Rhs) != 1 {
						continue
					}
					lhs := s.Lhs[0]
					w := Write{Depth: depth, TopStmt: ts, RHS: printNode(fset, s.Rhs[0])}
					if ix, ok := lhs.(*ast.IndexExpr); ok {
						lhs = ix.X
						w.Indexed = true
					}
					r, p, ok := selectorPath(lhs)
					if !ok || !vars[r] {
						continue
					}
					w.Root, w.Path = r, p
					if len(s.Lhs) == 2 {
						if id, ok := s.Lhs[1].(*ast.Ident); ok && id.Name == "err" {
							w.WithErr = true
						}
					}
					switch rhs := s.Rhs[0].(type) {
					case *ast.CallExpr:
						if id, ok := rhs.Fun.(*ast.Ident); ok && id.Name == "make" {
							w.Kind = "make"
						}
					case *ast.UnaryExpr:
						if _, ok := rhs.X.(*ast.CompositeLit); ok && rhs.Op == token.AND {
							w.Kind = "alloc"
						}
					case *ast.Ident:
						if rhs.Name == "nil" {
							w.Kind = "nil"
						}
					}
					if w.Kind == "" {
						w.Kind = "plain"
						decomposeRHS(fset, s.Rhs[0], vars, &w)
					}
					fi.Writes = append(fi.Writes, w)
				case *ast.ExprStmt:
					if call, ok := s.X.(*ast.CallExpr); ok {
						if id, ok := call.Fun.(*ast.Ident); ok && id.Name == "copy" && len(call.Args) == 2 {
							// copy(dst.X, src.X): an indexed write of dst.X
							if r, p, ok := selectorPath(call.Args[0]); ok && vars[r] {
								w := Write{Root: r, Path: p, Indexed: true, Kind: "plain", Depth: depth, TopStmt: ts, RHS: printNode(fset, call.Args[1])}
								if r2, p2, ok := selectorPath(call.Args[1]); ok && vars[r2] {
									w.SrcRoot, w.SrcPath = r2, p2
								}
								fi.Writes = append(fi.Writes, w)
							}
							continue
						}
						fi.Calls = append(fi.Calls, printNode(fset, call))
					}
				case *ast.IfStmt:
					if be, ok := s.Cond.(*ast.BinaryExpr); ok {
						if id, ok := be.X.(*ast.Ident); ok && id.Name == "err" && be.Op == token.NEQ {
							fi.ErrCheck++
						}
					}
					if s.Init != nil {
						walk([]ast.Stmt{s.Init}, depth+1, ts)
					}
					walk(s.Body.List, depth+1, ts)
					if blk, ok := s.Else.(*ast.BlockStmt); ok {
						walk(blk.List, depth+1, ts)
					}
				case *ast.RangeStmt:
					// for i, e := range src.X { dst.X[i] = e }: the element variable stands for src.X[i]
					walk(s.Body.List, depth+1, ts)
					if r, p, ok := selectorPath(s.X); ok && vars[r] {
						for k := range fi.Writes {
							w := &fi.Writes[k]
							if w.TopStmt == ts && w.Indexed && w.SrcRoot == "" {
								w.SrcRoot, w.SrcPath = r, p
							}
						}
					}
				case *ast.ForStmt:
					walk(s.Body.List, depth+1, ts)
				case *ast.BlockStmt:
					walk(s.List, depth+1, ts)
				}
			}
		}
		walk(fd.Body.List, 0, 0)
		key := fi.Recv + "." + fi.Name
		out[key] = fi
	}
	return out, nil
}
