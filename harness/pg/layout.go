package pg

import (
	"fmt"
	"go/ast"
	"go/format"
	"go/parser"
	"go/scanner"
	"go/token"
	"sort"
	"strings"

	"pgregory.net/rapid"
)

// Engine L: a setup file as a list of items (declarations with their comments, free-floating
// comments, interfaces) from which both the file and the expected skeleton of the output are
// rendered.

// LLine is one comment line inside a method's or interface's comment group.
type LLine struct {
	Text     string `json:"text"` // without the leading "// "
	Notation bool   `json:"notation,omitempty"`
	// Directive: rendered as "//"+Text without the blank (e.g. "go:generate …"); never part of the output
	Directive bool `json:"directive,omitempty"`
	// Block: the whole "/* ... */" text of a block comment standing in the comment group (Text is unused); interior
	// lines carry their own indentation. Never a notation: notations are line comments.
	Block string `json:"block,omitempty"`
}

func (l LLine) render() string {
	if l.Block != "" {
		return l.Block
	}
	if l.Directive {
		return "//" + l.Text
	}
	return "// " + l.Text
}

// LMethod is a method of an interface in the layout model.
type LMethod struct {
	Name        string  `json:"name"`
	Sig         string  `json:"sig"` // "(*LInner) *LInner2"
	Lines       []LLine `json:"lines,omitempty"`
	Trailing    string  `json:"trailing,omitempty"`
	BlankBefore bool    `json:"blank_before,omitempty"`
	Recv        string  `json:"recv,omitempty"` // receiver variable when a :recv notation is among the lines
	RecvType    string  `json:"recv_type,omitempty"`
}

// LIface is an interface declaration of the setup file (converter or not).
type LIface struct {
	Name       string    `json:"name"`
	Converter  bool      `json:"converter"` // the harness's expectation: named Convergen or marked
	MarkerLine string    `json:"marker_line,omitempty"`
	Doc        []LLine   `json:"doc,omitempty"`
	GoGenerate bool      `json:"go_generate,omitempty"`
	Methods    []LMethod `json:"methods"`
	BlockDoc   string    `json:"block_doc,omitempty"` // a /* ... */ doc comment instead of line comments (look-alike carrier)
	// Embed: name of an unmarked interface of the same file that this interface embeds; EmbedMethods are that
	// interface's methods. They belong to the method set of the converter interface: one function each.
	// EmbedIsConverter: the embedded interface is itself a converter interface: its methods would have to be generated
	// twice, which no Go file can hold - the run has to be refused (or every function emitted exactly once)
	EmbedIsConverter bool      `json:"embed_is_converter,omitempty"`
	Embed            string    `json:"embed,omitempty"`
	EmbedMethods     []LMethod `json:"embed_methods,omitempty"`
}

// LItem is one top-level item.
type LItem struct {
	Kind  string   `json:"kind"` // decl | comment | iface
	Text  string   `json:"text,omitempty"`
	Names []string `json:"names,omitempty"`
	Iface *LIface  `json:"iface,omitempty"`
}

// LFile is a setup file (or a sibling file) in the layout model.
type LFile struct {
	// Header: ordinary comment lines directly above the build constraint, in the same comment group
	Header []string `json:"header,omitempty"`
	// GoGenerateAtPackage: a go:generate line directly above the package clause (it is the package doc)
	GoGenerateAtPackage bool `json:"go_generate_at_package,omitempty"`
	Tagged              bool `json:"tagged"`
	OldTag              bool `json:"old_tag,omitempty"`
	// TagMore: a further term of the constraint after "convergen" ("go1.18", "!never"): //go:build convergen && go1.18,
	// // +build convergen,go1.18. The whole constraint line goes (the output belongs to the ordinary build).
	TagMore string   `json:"tag_more,omitempty"`
	PkgDoc  []string `json:"pkg_doc,omitempty"`
	Imports []Import `json:"imports,omitempty"`
	Items   []LItem  `json:"items"`
}

func renderIface(sb *strings.Builder, it *LIface, skeleton bool) {
	if it.GoGenerate && !skeleton {
		sb.WriteString("//go:generate go run github.com/reedom/convergen@v0.8.0\n")
	}
	if it.BlockDoc != "" {
		sb.WriteString("/* " + it.BlockDoc + " */\n")
	}
	for _, l := range it.Doc {
		sb.WriteString("// " + l.Text + "\n")
	}
	fmt.Fprintf(sb, "type %s interface {\n", it.Name)
	if it.Embed != "" {
		sb.WriteString("\t" + it.Embed + "\n")
	}
	for _, m := range it.Methods {
		if m.BlankBefore {
			sb.WriteString("\n")
		}
		for _, l := range m.Lines {
			sb.WriteString("\t" + l.render() + "\n")
		}
		sb.WriteString("\t" + m.Name + m.Sig)
		if m.Trailing != "" {
			sb.WriteString(" // " + m.Trailing)
		}
		sb.WriteString("\n")
	}
	sb.WriteString("}\n")
}

// Placeholder is what stands for the functions generated from converter interface k in the skeleton.
func Placeholder(k int) string { return fmt.Sprintf("var _generated_block_%d_ int\n", k) }

// render produces the setup file (skeleton=false) or the expected output skeleton (skeleton=true):
// converter interfaces replaced by placeholders, build constraints and go:generate lines absent.
func (f *LFile) render(skeleton bool) string {
	var sb strings.Builder
	if !skeleton {
		for _, l := range f.Header {
			sb.WriteString("// " + l + "\n")
		}
		if f.Tagged {
			more, moreOld := "", ""
			if f.TagMore != "" {
				more, moreOld = " && "+f.TagMore, ","+f.TagMore
			}
			sb.WriteString("//go:build convergen" + more + "\n")
			if f.OldTag {
				sb.WriteString("// +build convergen" + moreOld + "\n")
			}
			sb.WriteString("\n")
		}
	} else {
		sb.WriteString("// Code generated by github.com/reedom/convergen\n// DO NOT EDIT.\n\n")
		for _, l := range f.Header {
			sb.WriteString("// " + l + "\n")
		}
		if len(f.Header) > 0 {
			sb.WriteString("\n")
		}
	}
	for _, l := range f.PkgDoc {
		sb.WriteString("// " + l + "\n")
	}
	if f.GoGenerateAtPackage && !skeleton {
		sb.WriteString("//go:generate go run github.com/reedom/convergen@v0.8.0\n")
	}
	sb.WriteString("package home\n\n")
	if len(f.Imports) > 0 && !skeleton {
		sb.WriteString("import (\n")
		for _, im := range f.Imports {
			if im.Name != "" {
				fmt.Fprintf(&sb, "\t%s %q\n", im.Name, im.Path)
			} else {
				fmt.Fprintf(&sb, "\t%q\n", im.Path)
			}
		}
		sb.WriteString(")\n\n")
	}
	k := 0
	for _, it := range f.Items {
		switch it.Kind {
		case "decl", "comment":
			text := it.Text
			if skeleton && strings.Contains(text, "//go:generate") {
				text = stripGenerateComments(text)
			}
			sb.WriteString(text)
			if !strings.HasSuffix(text, "\n") {
				sb.WriteString("\n")
			}
			sb.WriteString("\n")
		case "iface":
			if it.Iface.Converter && skeleton {
				sb.WriteString(Placeholder(k))
				sb.WriteString("\n")
				k++
				continue
			}
			if it.Iface.Converter {
				k++
			}
			renderIface(&sb, it.Iface, skeleton)
			sb.WriteString("\n")
		}
	}
	return sb.String()
}

// stripGenerateComments removes the lines of a declaration's text that are go:generate COMMENTS. A line of a raw string
// literal that looks like one is data and stays.
func stripGenerateComments(text string) string {
	fset := token.NewFileSet()
	file := fset.AddFile("decl.go", -1, len(text))
	var sc scanner.Scanner
	sc.Init(file, []byte(text), func(token.Position, string) {}, scanner.ScanComments)
	drop := map[int]bool{} // 1-based line numbers
	for {
		pos, tok, lit := sc.Scan()
		if tok == token.EOF {
			break
		}
		if tok == token.COMMENT && strings.HasPrefix(lit, "//go:generate") {
			drop[file.Line(pos)] = true
		}
	}
	var keep []string
	for i, ln := range strings.Split(text, "\n") {
		if !drop[i+1] {
			keep = append(keep, ln)
		}
	}
	return strings.Join(keep, "\n")
}

// Render renders the file as the user wrote it.
func (f *LFile) Render() string { return f.render(false) }

// Skeleton renders what the output must look like once generated functions are replaced by
// placeholders (imports excluded: T21).
func (f *LFile) Skeleton() string { return f.render(true) }

// Converters lists the converter interfaces in source order.
func (f *LFile) Converters() []*LIface {
	var out []*LIface
	for _, it := range f.Items {
		if it.Kind == "iface" && it.Iface.Converter {
			out = append(out, it.Iface)
		}
	}
	return out
}

// Tok is a token of a comment-preserving token stream.
type Tok struct {
	Tok token.Token
	Lit string
}

// Tokens tokenises Go source including comments. Import declarations are dropped (T21), automatic
// semicolons are dropped, comment text is normalised for trailing space.
func Tokens(src string) ([]Tok, error) {
	fset := token.NewFileSet()
	file := fset.AddFile("x.go", fset.Base(), len(src))
	var s scanner.Scanner
	var errs []string
	s.Init(file, []byte(src), func(pos token.Position, msg string) { errs = append(errs, msg) }, scanner.ScanComments)
	var out []Tok
	for {
		_, tok, lit := s.Scan()
		if tok == token.EOF {
			break
		}
		if tok == token.SEMICOLON && lit == "\n" {
			continue
		}
		if tok == token.COMMENT {
			lit = strings.TrimRight(lit, " \t\r")
		}
		out = append(out, Tok{tok, lit})
	}
	if len(errs) > 0 {
		return out, fmt.Errorf("scan: %s", strings.Join(errs, "; "))
	}
	return dropImports(out), nil
}

func dropImports(ts []Tok) []Tok {
	var out []Tok
	for i := 0; i < len(ts); i++ {
		if ts[i].Tok == token.IMPORT {
			i++
			if i < len(ts) && ts[i].Tok == token.LPAREN {
				for i < len(ts) && ts[i].Tok != token.RPAREN {
					i++
				}
			} else {
				// import [name] "path"
				for i < len(ts) && ts[i].Tok != token.STRING {
					i++
				}
			}
			continue
		}
		out = append(out, ts[i])
	}
	return out
}

// GeneratedFunc describes a generated function found in the output.
type GeneratedFunc struct {
	Key   string   // "Recv.Name" / ".Name"
	Doc   []string // comment lines of the doc comment, "//" included
	Start int      // byte offsets in the output, doc comment included
	End   int
}

// CutGenerated removes the given functions from the output: the first function of each block is
// replaced by the block's placeholder, the others vanish. blockOf maps function keys to the index of
// their converter interface. It returns the remaining text and the functions found.
func CutGenerated(out string, blockOf map[string]int) (string, []GeneratedFunc, error) {
	fset := token.NewFileSet()
	f, err := parser.ParseFile(fset, "out.go", out, parser.ParseComments)
	if err != nil {
		return "", nil, err
	}
	var found []GeneratedFunc
	type cut struct{ s, e, block int }
	var cuts []cut
	for _, d := range f.Decls {
		fd, ok := d.(*ast.FuncDecl)
		if !ok {
			continue
		}
		r := ""
		if fd.Recv != nil && len(fd.Recv.List) == 1 {
			r = recvName(fd.Recv.List[0].Type)
		}
		key := r + "." + fd.Name.Name
		b, gen := blockOf[key]
		if !gen {
			continue
		}
		start := fd.Pos()
		g := GeneratedFunc{Key: key}
		if fd.Doc != nil {
			start = fd.Doc.Pos()
			for _, c := range fd.Doc.List {
				g.Doc = append(g.Doc, c.Text)
			}
		}
		g.Start, g.End = fset.Position(start).Offset, fset.Position(fd.End()).Offset
		found = append(found, g)
		cuts = append(cuts, cut{g.Start, g.End, b})
	}
	sort.Slice(cuts, func(i, j int) bool { return cuts[i].s < cuts[j].s })
	var sb strings.Builder
	pos := 0
	seen := map[int]bool{}
	for _, c := range cuts {
		sb.WriteString(out[pos:c.s])
		if !seen[c.block] {
			sb.WriteString(Placeholder(c.block))
			seen[c.block] = true
		}
		pos = c.e
	}
	sb.WriteString(out[pos:])
	return sb.String(), found, nil
}

func recvName(e ast.Expr) string {
	switch x := e.(type) {
	case *ast.StarExpr:
		return recvName(x.X)
	case *ast.Ident:
		return x.Name
	case *ast.SelectorExpr:
		return recvName(x.X) + "." + x.Sel.Name
	}
	return "?"
}

// DocAttachments maps every top-level declaration (and spec) name to the text of its doc comment, so
// that a comment that is carried over but no longer attached to its declaration is noticed.
func DocAttachments(src string) (map[string]string, error) {
	fset := token.NewFileSet()
	f, err := parser.ParseFile(fset, "x.go", src, parser.ParseComments)
	if err != nil {
		return nil, err
	}
	out := map[string]string{}
	if f.Doc != nil {
		out["package"] = f.Doc.Text()
	}
	for _, d := range f.Decls {
		switch x := d.(type) {
		case *ast.FuncDecl:
			k := "func " + x.Name.Name
			if x.Recv != nil && len(x.Recv.List) == 1 {
				k = "func " + recvName(x.Recv.List[0].Type) + "." + x.Name.Name
			}
			if x.Doc != nil {
				out[k] = x.Doc.Text()
			}
		case *ast.GenDecl:
			for i, sp := range x.Specs {
				var name string
				var doc, cmt *ast.CommentGroup
				switch y := sp.(type) {
				case *ast.TypeSpec:
					name, doc, cmt = y.Name.Name, y.Doc, y.Comment
				case *ast.ValueSpec:
					name, doc, cmt = y.Names[0].Name, y.Doc, y.Comment
				default:
					continue
				}
				if i == 0 && x.Doc != nil {
					out[x.Tok.String()+" "+name] = x.Doc.Text()
				}
				if doc != nil {
					out["spec "+name] = doc.Text()
				}
				if cmt != nil {
					out["trailing "+name] = cmt.Text()
				}
			}
		}
	}
	return out, nil
}

// Gofmt formats source, returning the input when it cannot be parsed.
func Gofmt(src string) string {
	b, err := format.Source([]byte(src))
	if err != nil {
		return src
	}
	return string(b)
}

// DiffTokens returns a description of the first difference of two token streams ("" if equal).
func DiffTokens(want, got []Tok) string {
	n := min(len(want), len(got))
	for i := 0; i < n; i++ {
		if want[i] != got[i] {
			return fmt.Sprintf("token %d: want %s %q, got %s %q (context want: %s | got: %s)", i, want[i].Tok, want[i].Lit, got[i].Tok, got[i].Lit, ctx(want, i), ctx(got, i))
		}
	}
	if len(want) != len(got) {
		if len(want) > len(got) {
			return fmt.Sprintf("output ends early: missing %s %q … (context: %s)", want[n].Tok, want[n].Lit, ctx(want, n))
		}
		return fmt.Sprintf("output has extra tokens: %s %q … (context: %s)", got[n].Tok, got[n].Lit, ctx(got, n))
	}
	return ""
}

func ctx(ts []Tok, i int) string {
	var parts []string
	for j := max(0, i-4); j < min(len(ts), i+5); j++ {
		l := ts[j].Lit
		if l == "" {
			l = ts[j].Tok.String()
		}
		if j == i {
			l = "»" + l + "«"
		}
		parts = append(parts, l)
	}
	return strings.Join(parts, " ")
}

// ---- generators ----

var lDeclTemplates = []struct {
	Text  string
	Names []string
	Class string
}{
	{"// T%[1]d is a carried-over struct.\ntype T%[1]d struct {\n\tA int // trailing comment on a field\n\t// interior comment\n\tB string\n}", []string{"T%d"}, "struct-with-comments"},
	{"type Alias%[1]d = int", []string{"Alias%d"}, "alias"},
	{"const C%[1]d = %[1]d // trailing comment on a const", []string{"C%d"}, "const-trailing-comment"},
	{"// V%[1]d has a doc comment.\nvar V%[1]d = []int{1, 2}", []string{"V%d"}, "var-doc"},
	{"/* block comment before F%[1]d */\nfunc F%[1]d(x int) int {\n\t// comment inside a function body\n\treturn x + %[1]d\n}", []string{"F%d"}, "func-block-comment"},
	{"// String makes LP%[1]d a Stringer.\nfunc (p LP%[1]d) String() string { return \"p\" }\n\ntype LP%[1]d int", []string{"LP%d.String", "LP%d"}, "method-decl"},
	{"const (\n\t// grouped const with a doc comment\n\tG%[1]dA = iota\n\tG%[1]dB // trailing\n)", []string{"G%dA"}, "const-group"},
	{"var (\n\tW%[1]dA, W%[1]dB = 1, 2\n)", []string{"W%dA"}, "var-group"},
	{"func init() {\n\t_ = %[1]d\n}", []string{"init"}, "init-func"},
	{"// :convergen\ntype NotIface%[1]d struct{ X int } // the marker on a struct means nothing", []string{"NotIface%d"}, "lookalike:marker-on-struct"},
	{"// :convergen\nvar IVar%[1]d interface {\n\tDoVar%[1]d(*LInner) *LInner2\n} // the marker on a variable of interface type means nothing: only interface declarations are converted", []string{"IVar%d"}, "lookalike:marker-on-interface-typed-var"},
	{"//line generated_from_grammar.y:%[1]d00\nvar AfterLine%[1]d = %[1]d // every declaration below a line directive reports a position in another file", []string{"AfterLine%d"}, "line-directive"},
	{"type FieldDir%[1]d struct {\n\t//go:generate echo the only comment line of a struct field\n\tA int\n\t// B keeps its doc.\n\t//go:generate echo below a doc line of a field\n\tB int\n}", []string{"FieldDir%d"}, "go-generate-on-struct-field"},
	{"var (\n\t//go:generate echo the only comment line of a value spec\n\tSpecDir%[1]d = %[1]d\n)\n\ntype (\n\t//go:generate echo the only comment line of a type spec\n\tTypeDir%[1]d int\n)\n\nconst (\n\t//go:generate echo the only comment line of a const spec\n\tConstDir%[1]d = %[1]d\n)", []string{"SpecDir%d", "TypeDir%d", "ConstDir%d"}, "go-generate-on-grouped-spec"},
	{"func BodyDir%[1]d() int {\n\t//go:generate echo inside a function body\n\treturn %[1]d\n}", []string{"BodyDir%d"}, "go-generate-in-function-body"},
	{"// Prose%[1]d is documented by a sentence that mentions //go:generate and // +build convergen in passing.\n// Its second line stays as well.\nvar Prose%[1]d = %[1]d // a trailing comment about //go:generate", []string{"Prose%d"}, "directive-mentioned-in-prose"},
	{"// Raw%[1]d is a raw string whose lines look like directives: they are data, not comments.\nconst Raw%[1]d = `first line of %[1]d\n//go:generate echo inside a raw string\n  //go:build convergen\n// +build convergen\n\t// :convergen\n// :skip A\nlast line`", []string{"Raw%d"}, "raw-string-with-directive-looking-lines"},
	{"var RawTag%[1]d = struct {\n\tA int `json:\"a\"`\n}{}\n\nvar RawList%[1]d = []string{`\n//go:generate x\n`, \"//go:build convergen\"}", []string{"RawTag%d", "RawList%d"}, "raw-string-with-directive-looking-lines"},
	{"//go:generate stringer -type=Gen%[1]d\n// Gen%[1]d has a go:generate line at the start of its doc comment.\ntype Gen%[1]d int", []string{"Gen%d"}, "go-generate-in-doc:first"},
	{"// Mid%[1]d has a go:generate line in the middle of its doc comment.\n//go:generate stringer -type=Mid%[1]d\n// The doc comment goes on.\ntype Mid%[1]d int", []string{"Mid%d"}, "go-generate-in-doc:middle"},
	{"// End%[1]d has a go:generate line at the end of its doc comment.\n//go:generate stringer -type=End%[1]d\ntype End%[1]d int", []string{"End%d"}, "go-generate-in-doc:last"},
}

var lMethodNotations = []string{":typecast", ":stringer", ":getter", ":case:off", ":skip A", ":skip /^B/", ":map B B", ":literal A 1", ":style arg", ":match none", ":typecast:off"}

// lBlockDocs: block comments inside a method's comment group (%[1]s = method name). They are doc text like any other
// non-notation line; gofmt decides their final shape (NormaliseDoc), interior indentation is part of the text.
var lBlockDocs = []string{
	"/* one-line block doc of %[1]s */",
	"/*\n\t   %[1]s copies (block doc):\n\t       an indented example line\n\t           and a deeper one\n\t   last line of the block\n\t*/",
	"/* first line of the block doc of %[1]s\n\t     second line, indented   \n\t*/",
	"/*\n\t%[1]s:\n\t  - item one\n\t  - item two\n\n\t\tcode line\n\t*/",
}

// NormaliseDoc returns the comments of a doc comment the way gofmt prints them above a top-level function.
func NormaliseDoc(comments []string) []string {
	if len(comments) == 0 {
		return nil
	}
	// gofmt is not idempotent on block comments in doc position (the first pass re-indents, the next one reformats the
	// doc text), and the tool formats more than once: compare fixpoints
	src := "package p\n\n" + strings.Join(comments, "\n") + "\nfunc f() {}\n"
	for i := 0; i < 5; i++ {
		next := Gofmt(src)
		if next == src {
			break
		}
		src = next
	}
	fset := token.NewFileSet()
	f, err := parser.ParseFile(fset, "doc.go", src, parser.ParseComments)
	if err != nil {
		return comments
	}
	for _, d := range f.Decls {
		if fd, ok := d.(*ast.FuncDecl); ok && fd.Doc != nil {
			var out []string
			for _, c := range fd.Doc.List {
				out = append(out, c.Text)
			}
			return out
		}
	}
	return nil
}

// LayoutProfile selects what the layout generator varies.
type LayoutProfile struct {
	MaxItems      int
	MaxConverters int
	Unmarked      bool // unmarked interfaces and look-alikes (C17)
	Comments      bool // comments in every position (C11)
	SameNames     bool // same method names under different receivers (C17)
	NoConverter   bool // allow files without any converter interface (C17)
	Many          bool // now and then 11-14 converter interfaces in one file (their alphabetical order then differs from the source order)
	Directives    bool // directives that share a comment group with prose: header above the build constraint, go:generate inside doc comments / as package doc
}

var lSigs = []struct{ Sig, Recv string }{
	{"(*LInner) *LInner2", "LInner"}, {"(LInner) LInner2", "LInner"}, {"(*LInner2) *LInner", "LInner2"}, {"(*LInner) (*LInner2, error)", "LInner"},
	{"(*LInner, int) *LInner2", "LInner"}, {"(src *LInner) (dst *LInner2)", "LInner"},
}

// GenLayoutIface draws one interface.
func GenLayoutIface(t *rapid.T, pf LayoutProfile, idx int, methodSeq *int, forceConverter bool) *LIface {
	it := &LIface{}
	kind := "named"
	if forceConverter {
		kind = rapid.SampledFrom([]string{"named", "marked", "marked", "marked-spaced", "marked-with-doc"}).Draw(t, "convKind")
	} else {
		kind = rapid.SampledFrom([]string{"unmarked", "unmarked-doc", "convergence", "convergen2", "marker-in-block-comment", "marker-in-text", "notation-looking-lines", "marker-with-suffix", "directive-mentioned-in-doc"}).Draw(t, "plainKind")
	}
	it.Name = fmt.Sprintf("Iface%d", idx)
	switch kind {
	case "named":
		it.Name = "Convergen"
		it.Converter = true
	case "marked":
		it.Doc = append(it.Doc, LLine{Text: ":convergen", Notation: true})
		it.Converter = true
	case "marked-spaced":
		it.Doc = append(it.Doc, LLine{Text: "  :convergen", Notation: true})
		it.Converter = true
	case "marked-with-doc":
		it.Doc = append(it.Doc, LLine{Text: it.Name + " is documented.", Notation: false}, LLine{Text: ":convergen", Notation: true}, LLine{Text: "More documentation.", Notation: false})
		it.Converter = true
	case "unmarked":
	case "unmarked-doc":
		it.Doc = append(it.Doc, LLine{Text: it.Name + " is not a converter.", Notation: false})
	case "convergence":
		it.Doc = append(it.Doc, LLine{Text: ":convergence", Notation: false})
	case "convergen2":
		it.Name = fmt.Sprintf("Convergen%d", idx+2)
	case "marker-in-block-comment":
		it.BlockDoc = ":convergen"
	case "marker-in-text":
		it.Doc = append(it.Doc, LLine{Text: "mentions :convergen in the middle of a sentence", Notation: false})
	case "notation-looking-lines":
		it.Doc = append(it.Doc, LLine{Text: ":typecast", Notation: false})
	case "marker-with-suffix":
		// the marker is the word ":convergen", not every word that starts with it
		it.Doc = append(it.Doc, LLine{Text: rapid.SampledFrom([]string{":convergen-like but not the marker", ":convergen.v2", ":convergen:off"}).Draw(t, "markerSuffix"), Notation: false})
	case "directive-mentioned-in-doc":
		// prose that mentions a directive is prose
		it.Doc = append(it.Doc, LLine{Text: it.Name + " does what //go:generate would do, and mentions //go:build convergen too.", Notation: false}, LLine{Text: "Second line of the doc comment.", Notation: false})
	}
	if it.Converter {
		it.GoGenerate = rapid.IntRange(0, 2).Draw(t, "gogen") == 0
		if rapid.IntRange(0, 2).Draw(t, "ifaceNotes") == 0 {
			it.Doc = append(it.Doc, LLine{Text: rapid.SampledFrom([]string{":typecast", ":stringer", ":style arg", ":case:off", ":getter"}).Draw(t, "ifaceNote"), Notation: true})
		}
		if pf.Comments && rapid.IntRange(0, 2).Draw(t, "ifaceDoc") == 0 {
			it.Doc = append([]LLine{{Text: it.Name + " converts.", Notation: false}}, it.Doc...)
		}
	}
	nm := rapid.IntRange(1, 4).Draw(t, "nmethods")
	for j := 0; j < nm; j++ {
		sg := rapid.SampledFrom(lSigs).Draw(t, "sig")
		m := LMethod{Name: fmt.Sprintf("Convert%02d", *methodSeq), Sig: sg.Sig}
		*methodSeq++
		if it.Converter {
			nl := rapid.IntRange(0, 4).Draw(t, "mlines")
			usedStyle := false
			for i := 0; i < nl; i++ {
				if rapid.Bool().Draw(t, "isNotation") {
					n := rapid.SampledFrom(lMethodNotations).Draw(t, "mnote")
					if strings.HasPrefix(n, ":style") {
						if usedStyle {
							continue
						}
						usedStyle = true
					}
					m.Lines = append(m.Lines, LLine{Text: n, Notation: true})
				} else if pf.Comments {
					if rapid.IntRange(0, 5).Draw(t, "blockDoc") == 0 {
						m.Lines = append(m.Lines, LLine{Block: fmt.Sprintf(rapid.SampledFrom(lBlockDocs).Draw(t, "blockDocShape"), m.Name)})
					} else {
						m.Lines = append(m.Lines, LLine{Text: fmt.Sprintf("%s doc line %d (costs US$5, $1 ${x} $$ 100%%d).", m.Name, i)})
					}
				}
			}
			if pf.SameNames && rapid.IntRange(0, 2).Draw(t, "recv") == 0 && !strings.Contains(sg.Sig, "src ") {
				m.Name = "ToOther"
				m.Recv = "x"
				m.RecvType = sg.Recv
				m.Lines = append(m.Lines, LLine{Text: ":recv x", Notation: true})
			}
			if pf.Comments && rapid.IntRange(0, 4).Draw(t, "trailing") == 0 {
				m.Trailing = "trailing comment on a method"
			}
			if pf.Directives && rapid.IntRange(0, 7).Draw(t, "methodDirective") == 0 {
				// a go:generate line inside the method comment (between the other lines): a directive, not doc text
				at := rapid.IntRange(0, len(m.Lines)).Draw(t, "directiveAt")
				dl := LLine{Text: "go:generate echo from a method comment", Notation: true, Directive: true}
				m.Lines = append(m.Lines[:at], append([]LLine{dl}, m.Lines[at:]...)...)
			}
			m.BlankBefore = j > 0 && rapid.IntRange(0, 3).Draw(t, "blank") == 0
		} else {
			// plain interfaces: anything goes, including notation-looking comment lines (T14)
			m.Name = fmt.Sprintf("Do%02d", *methodSeq)
			m.Sig = rapid.SampledFrom([]string{"(x int) error", "() string", "(*LInner) *LInner2"}).Draw(t, "plainSig")
			if rapid.IntRange(0, 2).Draw(t, "plainNote") == 0 {
				m.Lines = append(m.Lines, LLine{Text: ":skip looks like a notation", Notation: false})
			}
			if kind == "directive-mentioned-in-doc" {
				m.Lines = append(m.Lines, LLine{Text: "runs what //go:generate would run", Notation: false})
			}
		}
		it.Methods = append(it.Methods, m)
	}
	return it
}

// GenLayoutFile draws a setup file in the layout model.
func GenLayoutFile(t *rapid.T, pf LayoutProfile) *LFile {
	f := &LFile{Tagged: true, OldTag: rapid.IntRange(0, 2).Draw(t, "oldTag") == 0}
	if pf.Comments && rapid.IntRange(0, 2).Draw(t, "pkgDoc") == 0 {
		f.PkgDoc = []string{"Package home has a doc comment.", "It has two lines."}
	}
	if pf.Directives {
		if rapid.IntRange(0, 4).Draw(t, "tagMore") == 0 {
			f.TagMore = rapid.SampledFrom([]string{"go1.18", "!never", "go1.16"}).Draw(t, "tagMoreV")
		}
		if rapid.IntRange(0, 3).Draw(t, "header") == 0 {
			f.Header = []string{"Copyright (c) the authors. A licence line directly above the build constraint."}
		}
		f.GoGenerateAtPackage = rapid.IntRange(0, 4).Draw(t, "goGenAtPackage") == 0
	}
	nconv := rapid.IntRange(1, max(1, pf.MaxConverters)).Draw(t, "nconv")
	if pf.NoConverter && rapid.IntRange(0, 5).Draw(t, "noConverter") == 0 {
		nconv = 0
	}
	if pf.Many && rapid.IntRange(0, 13).Draw(t, "many") == 0 {
		nconv = rapid.IntRange(11, 14).Draw(t, "nconvMany")
	}
	nitems := rapid.IntRange(0, pf.MaxItems).Draw(t, "nitems")
	// positions of converter interfaces among the items
	total := nitems + nconv
	convAt := map[int]bool{}
	for len(convAt) < nconv {
		convAt[rapid.IntRange(0, total-1).Draw(t, "convAt")] = true
	}
	seq := 0
	declIdx := 0
	namedUsed := false
	for i := 0; i < total; i++ {
		if convAt[i] {
			it := GenLayoutIface(t, pf, i, &seq, true)
			if it.Name == "Convergen" {
				if namedUsed {
					it.Name = fmt.Sprintf("Iface%d", i)
					it.Doc = append([]LLine{{Text: ":convergen", Notation: true}}, it.Doc...)
				}
				namedUsed = true
			}
			if pf.Unmarked && rapid.IntRange(0, 5).Draw(t, "embedBase") == 0 {
				// the converter interface embeds an unmarked interface of the file: its methods are methods of the converter
				// interface (one function each), the embedded interface itself is an ordinary declaration that stays
				it.Embed = fmt.Sprintf("Base%d", i)
				nb := rapid.IntRange(1, 2).Draw(t, "embedMethods")
				var body strings.Builder
				for j := 0; j < nb; j++ {
					bm := LMethod{Name: fmt.Sprintf("FromBase%02d", seq), Sig: "(*LInner) *LInner2"}
					seq++
					it.EmbedMethods = append(it.EmbedMethods, bm)
					body.WriteString("\t" + bm.Name + bm.Sig + "\n")
				}
				base := LItem{Kind: "decl", Text: fmt.Sprintf("type %s interface {\n%s}", it.Embed, body.String()), Names: []string{it.Embed}}
				if rapid.IntRange(0, 3).Draw(t, "embedConverter") == 0 {
					it.EmbedIsConverter = true
					base = LItem{Kind: "iface", Iface: &LIface{Name: it.Embed, Converter: true, Doc: []LLine{{Text: ":convergen", Notation: true}}, Methods: it.EmbedMethods}}
				}
				if rapid.Bool().Draw(t, "embedBaseFirst") {
					f.Items = append(f.Items, base, LItem{Kind: "iface", Iface: it})
				} else {
					f.Items = append(f.Items, LItem{Kind: "iface", Iface: it}, base)
				}
				continue
			}
			f.Items = append(f.Items, LItem{Kind: "iface", Iface: it})
			continue
		}
		switch k := rapid.IntRange(0, 9).Draw(t, "itemKind"); {
		case k < 2 && pf.Comments:
			f.Items = append(f.Items, LItem{Kind: "comment", Text: fmt.Sprintf("// free-floating comment %d", i)})
		case k < 3 && pf.Comments:
			f.Items = append(f.Items, LItem{Kind: "comment", Text: fmt.Sprintf("/*\n   a free-floating block comment %d\n*/", i)})
		case k < 6 && pf.Unmarked:
			it := GenLayoutIface(t, pf, i, &seq, false)
			f.Items = append(f.Items, LItem{Kind: "iface", Iface: it})
		default:
			tp := rapid.SampledFrom(lDeclTemplates).Draw(t, "decl")
			if strings.HasPrefix(tp.Class, "go-generate-") && !pf.Directives {
				tp = lDeclTemplates[0]
			}
			if tp.Class == "init-func" && declIdx > 0 && rapid.Bool().Draw(t, "skipInit") {
				tp = lDeclTemplates[0]
			}
			declIdx++
			var names []string
			for _, n := range tp.Names {
				if strings.Contains(n, "%d") {
					names = append(names, fmt.Sprintf(n, declIdx))
				} else {
					names = append(names, n)
				}
			}
			f.Items = append(f.Items, LItem{Kind: "decl", Text: fmt.Sprintf(tp.Text, declIdx), Names: names})
		}
	}
	// "ToOther" with a receiver must be unique per (receiver type) in the file and per interface
	seenRecv := map[string]bool{}
	for _, it := range f.Items {
		if it.Kind != "iface" {
			continue
		}
		inIface := false
		for j := range it.Iface.Methods {
			m := &it.Iface.Methods[j]
			if m.Recv == "" {
				continue
			}
			if inIface || seenRecv[m.RecvType] {
				m.Name = fmt.Sprintf("ToOther%d", seq)
				seq++
			}
			inIface = true
			seenRecv[m.RecvType] = true
		}
	}
	return f
}

// EmbedsConverter reports whether some converter interface embeds another converter interface.
func (f *LFile) EmbedsConverter() bool {
	for _, it := range f.Converters() {
		if it.EmbedIsConverter {
			return true
		}
	}
	return false
}

// WantFuncKeys returns the expected generated functions and the block index of each.
func (f *LFile) WantFuncKeys() map[string]int {
	out := map[string]int{}
	for k, it := range f.Converters() {
		for _, m := range it.Methods {
			out[m.RecvType+"."+m.Name] = k
		}
		for _, m := range it.EmbedMethods {
			out[m.RecvType+"."+m.Name] = k
		}
	}
	return out
}
