package pg

import (
	"fmt"
	"regexp"
	"strings"
)

// Issue is a disagreement between the plan and the observed output of one method.
type Issue struct {
	Property string // owning property: C04 (default matching), C05 (coverage), C06 (explicit notations)
	Class    string
	Symptom  string
	Detail   string
}

func (i Issue) Fingerprint() string { return i.Property + "|" + i.Class + "|" + i.Symptom }

// Observed is the per-path view of a generated function.
type Observed struct {
	Writes  map[string][]Write // non-indexed writes by destination path
	Indexed map[string][]Write
	Skip    map[string]int
	NoMatch map[string]int
	Allocs  map[string]int
}

// Observe projects a function onto destination paths of the written operand.
func Observe(fi *FuncInfo, lhsVar string) *Observed {
	o := &Observed{Writes: map[string][]Write{}, Indexed: map[string][]Write{}, Skip: map[string]int{}, NoMatch: map[string]int{}, Allocs: map[string]int{}}
	for _, w := range fi.Writes {
		if w.Root != lhsVar || w.Path == "" {
			continue
		}
		switch {
		case w.Indexed:
			o.Indexed[w.Path] = append(o.Indexed[w.Path], w)
		case w.Kind == "alloc":
			o.Allocs[w.Path]++
		default:
			o.Writes[w.Path] = append(o.Writes[w.Path], w)
		}
	}
	strip := func(e string) (string, bool) {
		if strings.HasPrefix(e, lhsVar+".") {
			return strings.TrimPrefix(e, lhsVar+"."), true
		}
		return e, false
	}
	for _, s := range fi.Skips {
		if p, ok := strip(s); ok {
			o.Skip[p]++
		} else {
			o.Skip["?"+s]++
		}
	}
	for _, s := range fi.NoMatch {
		if p, ok := strip(s); ok {
			o.NoMatch[p]++
		} else {
			o.NoMatch["?"+s]++
		}
	}
	return o
}

func ancestors(path string) []string {
	var out []string
	segs := strings.Split(path, ".")
	for i := 1; i < len(segs); i++ {
		out = append(out, strings.Join(segs[:i], "."))
	}
	return out
}

// CheckCoverage implements C05's "covered exactly once" and "invisible members are never mentioned".
func CheckCoverage(p *Plan, o *Observed) []Issue {
	var issues []Issue
	nodes := map[string]*Leaf{}
	p.Walk(func(l *Leaf) { nodes[l.Path] = l })
	cover := func(path string) int { return len(o.Writes[path]) + o.Skip[path] + o.NoMatch[path] }
	p.Walk(func(l *Leaf) {
		if l.Descend {
			return
		}
		n := cover(l.Path)
		var via []string
		for _, a := range ancestors(l.Path) {
			if c := cover(a); c > 0 {
				n += c
				via = append(via, a)
			}
		}
		if n == 0 && structOf(l.Type) != nil {
			// treated member by member where the plan treats the field as a whole (or leaves it open):
			// the members' own items cover it; whether member-wise treatment was right is CheckMatching's call
			pre := l.Path + "."
			below := false
			for k := range o.Writes {
				below = below || strings.HasPrefix(k, pre)
			}
			for k := range o.Skip {
				below = below || strings.HasPrefix(k, pre)
			}
			for k := range o.NoMatch {
				below = below || strings.HasPrefix(k, pre)
			}
			if below {
				return
			}
		}
		switch {
		case n == 0:
			issues = append(issues, Issue{"C05", l.Class, "field-silently-dropped", fmt.Sprintf("destination field %s.%s is neither assigned nor reported (skip / no match)", p.LhsVar, l.Path)})
		case n > 1:
			issues = append(issues, Issue{"C05", l.Class, "field-covered-more-than-once", fmt.Sprintf("destination field %s.%s is covered %d times (writes %d, skip %d, no match %d, via ancestors %v)", p.LhsVar, l.Path, n, len(o.Writes[l.Path]), o.Skip[l.Path], o.NoMatch[l.Path], via)})
		}
	})
	// every mentioned path must be a node of the plan (visible from the home package)
	mention := func(path, how string) {
		if strings.HasPrefix(path, "?") {
			issues = append(issues, Issue{"C05", "comment", "comment-on-foreign-expression", fmt.Sprintf("%s comment on %q which is not a path of %s", how, path[1:], p.LhsVar)})
			return
		}
		if _, ok := nodes[path]; ok {
			return
		}
		// a path below a leaf that was planned as a whole is fine only if the leaf itself is loose
		for _, a := range ancestors(path) {
			if l, ok := nodes[a]; ok && !l.Descend {
				if l.Loose {
					return
				}
				// member-wise treatment of a field the plan treats as a whole: visible members only
				if st := structOf(l.Type); st != nil {
					return
				}
			}
		}
		issues = append(issues, Issue{"C05", "visibility", "mentions-invisible-or-unknown-member", fmt.Sprintf("%s mentions %s.%s, which the package cannot see or which does not exist", how, p.LhsVar, path)})
	}
	for path := range o.Writes {
		mention(path, "assignment")
	}
	for path := range o.Skip {
		mention(path, "skip")
	}
	for path := range o.NoMatch {
		mention(path, "no match")
	}
	return issues
}

var reWarn = regexp.MustCompile(`^(.*\.go):(\d+):(\d+): (.*)$`)

// CheckWarnings implements the stderr half of C05: each `no match` has its own positioned warning.
// lines = 1-based lines of the method and of its notations in the setup file.
func CheckWarnings(p *Plan, o *Observed, stderr, setupAbs string, lines map[int]bool) []Issue {
	var issues []Issue
	type warn struct {
		line int
		msg  string
		used bool
	}
	var ws []*warn
	for _, ln := range strings.Split(stderr, "\n") {
		m := reWarn.FindStringSubmatch(ln)
		if m == nil || m[1] != setupAbs {
			continue
		}
		ws = append(ws, &warn{line: atoi(m[2]), msg: m[4]})
	}
	for path, n := range o.NoMatch {
		expr := p.LhsVar + "." + strings.TrimPrefix(path, "?")
		for k := 0; k < n; k++ {
			found := false
			for _, w := range ws {
				if !w.used && lines[w.line] && (strings.Contains(w.msg, " "+expr+" ") || strings.HasSuffix(w.msg, " "+expr)) {
					w.used, found = true, true
					break
				}
			}
			if !found {
				issues = append(issues, Issue{"C05", "warning", "no-match-without-positioned-warning", fmt.Sprintf("`// no match: %s` has no warning on stderr at the position of the method or of one of its notations (lines %v)", expr, keysInt(lines))})
			}
		}
	}
	return issues
}

func keysInt(m map[int]bool) []int {
	var out []int
	for k := range m {
		out = append(out, k)
	}
	return out
}

func (p *Plan) rootIndexOf(v string) int {
	if v == p.RhsVar {
		return 0
	}
	for i, a := range p.ArgVars {
		if a == v {
			return i + 1
		}
	}
	return -1
}

// matchAlt reports which acceptable alternative the observation realises (-1 = none).
func (p *Plan) matchAlt(l *Leaf, o *Observed) (int, string) {
	ws := o.Writes[l.Path]
	switch {
	case o.Skip[l.Path] > 0 && len(ws) == 0:
		for i, a := range l.Alts {
			if a.Kind == "skip" {
				return i, "skip"
			}
		}
		return -1, "skip"
	case o.NoMatch[l.Path] > 0 && len(ws) == 0:
		for i, a := range l.Alts {
			if a.Kind == "nomatch" {
				return i, "nomatch"
			}
		}
		return -1, "nomatch"
	case len(ws) == 0:
		// covered by an ancestor?
		for _, a := range ancestors(l.Path) {
			if o.Skip[a] > 0 {
				for i, al := range l.Alts {
					if al.Kind == "skip" {
						return i, "skip(ancestor)"
					}
				}
				return -1, "skip(ancestor)"
			}
			if o.NoMatch[a] > 0 {
				for i, al := range l.Alts {
					if al.Kind == "nomatch" {
						return i, "nomatch(ancestor)"
					}
				}
				return -1, "nomatch(ancestor)"
			}
			if len(o.Writes[a]) > 0 {
				return -1, "assigned-through-ancestor " + a
			}
		}
		return -1, "dropped"
	}
	w := ws[0]
	obs := fmt.Sprintf("%s = %s", l.Path, w.RHS)
	for i, a := range l.Alts {
		if a.Kind != "assign" {
			continue
		}
		if a.Literal != "" {
			if strings.Join(strings.Fields(w.RHS), "") == strings.Join(strings.Fields(a.Literal), "") {
				return i, obs
			}
			continue
		}
		if a.Src == nil {
			continue
		}
		if a.Slice != "" {
			if w.Kind != "make" {
				continue
			}
			iw := o.Indexed[l.Path]
			if len(iw) == 0 {
				continue
			}
			if p.rootIndexOf(iw[0].SrcRoot) != a.Src.Root || iw[0].SrcPath != a.Src.Path {
				continue
			}
			if a.Slice == "convert" && iw[0].Conv != "typecast" || a.Slice == "copy" && iw[0].Conv != "" {
				continue
			}
			return i, obs
		}
		if w.Kind != "plain" || p.rootIndexOf(w.SrcRoot) != a.Src.Root || w.SrcPath != a.Src.Path {
			continue
		}
		if a.Converter != "" {
			// observed as a "typecast" to the converter's name, possibly wrapped by the result conversion
			conv := w.Conv
			want := "typecast"
			if a.ArgConv == "typecast" {
				want = "typecast+typecast"
			} else if a.ArgConv == "stringer" {
				want = "typecast+stringer" // f(x.String())
			}
			_ = want
			if !strings.Contains(w.RHS, a.Converter+"(") {
				continue
			}
			if a.ConvErr != w.WithErr {
				continue
			}
			_ = conv
			return i, obs
		}
		if w.Conv == "" && strings.Count(w.RHS, "(") != strings.Count(w.SrcPath, "()") {
			continue // a call the inspector could not classify
		}
		if w.Conv != a.Conv {
			continue
		}
		if a.Src.RetErr != w.WithErr {
			continue
		}
		return i, obs
	}
	return -1, obs
}

// CheckMatching compares every non-loose leaf with the observation. Default-matched leaves are owned
// by C04, leaves under an explicit notation by C06.
func CheckMatching(p *Plan, o *Observed) ([]Issue, map[*Leaf]int) {
	var issues []Issue
	chosen := map[*Leaf]int{}
	p.Walk(func(l *Leaf) {
		if l.Descend {
			// an inner node must not be written or reported as a whole
			if len(o.Writes[l.Path]) > 0 || o.NoMatch[l.Path] > 0 || o.Skip[l.Path] > 0 {
				prop := "C04"
				if p.notationBelow(l.Path, l.Type) {
					prop = "C06"
				}
				issues = append(issues, Issue{prop, l.Class, "struct-treated-as-a-whole-instead-of-member-wise",
					fmt.Sprintf("field %s.%s must be matched member by member (writes %d, no match %d, skip %d)", p.LhsVar, l.Path, len(o.Writes[l.Path]), o.NoMatch[l.Path], o.Skip[l.Path])})
			}
			return
		}
		if l.Loose {
			chosen[l] = -1
			return
		}
		i, obs := p.matchAlt(l, o)
		chosen[l] = i
		if i >= 0 {
			return
		}
		chosen[l] = -2 // none of the acceptable alternatives was realised (-1 = outcome left open)
		prop := "C04"
		if l.Explicit != "" {
			prop = "C06"
		}
		var want []string
		mustAssign, mayAssign := true, false
		for _, a := range l.Alts {
			switch a.Kind {
			case "assign":
				mayAssign = true
				d := a.SrcDesc
				if a.Literal != "" {
					d = "literal " + a.Literal
				}
				if a.Converter != "" {
					d = a.Converter + "(" + d + ")"
				}
				if a.Conv != "" {
					d += " via " + a.Conv
				}
				if a.Slice != "" {
					d += " slice-" + a.Slice
				}
				want = append(want, d)
			default:
				mustAssign = false
				want = append(want, a.Kind)
			}
		}
		sym := "wrong-source-or-conversion"
		assigned := len(o.Writes[l.Path]) > 0
		switch {
		case assigned && !mayAssign:
			sym = "assigned-but-must-not"
		case !assigned && mustAssign:
			sym = "not-assigned-but-must"
		case !assigned:
			sym = "wrong-report:" + strings.Fields(obs)[0]
		}
		issues = append(issues, Issue{prop, l.Class, sym, fmt.Sprintf("field %s.%s: observed %q, acceptable: %s", p.LhsVar, l.Path, obs, strings.Join(want, " | "))})
	})
	return issues, chosen
}
