package pg

import (
	"fmt"
	"go/ast"
	"go/types"
	"regexp"
	"strconv"
	"strings"
)

// The reference planner: the property statements (C04, C05, C06, C08, C10) turned into a function
// from (types, effective options, notations) to the set of acceptable outcomes per destination
// field. It works on the harness's own go/types view and never reads convergen's output.

// Source is a resolved source expression.
type Source struct {
	Root    int    // 0 = the source operand, k >= 1 = the k-th additional argument
	Path    string // relative to the root, "N.Get()" style; "" = the root itself
	Type    types.Type
	RetErr  bool     // the last segment is a (T, error) getter
	Addr    bool     // the expression is addressable
	PtrHops []string // proper prefixes of Path (or "" for the root) that are pointer-typed and dereferenced on the way
	Getters []string // instrumented getter call sites on the path, in call order (for traces)
}

// Alt is one acceptable way to account for a destination field.
type Alt struct {
	Kind      string  `json:"kind"` // assign | nomatch | skip
	Src       *Source `json:"-"`
	SrcDesc   string  `json:"src,omitempty"`
	Conv      string  `json:"conv,omitempty"`      // "", typecast, stringer (applied to the source or to the converter result)
	ArgConv   string  `json:"arg_conv,omitempty"`  // conversion of the converter argument
	Converter string  `json:"converter,omitempty"` // converter function name as written
	ArgAddr   bool    `json:"arg_addr,omitempty"`  // the converter takes the address of the source
	ConvErr   bool    `json:"conv_err,omitempty"`  // the converter returns (T, error)
	Literal   string  `json:"literal,omitempty"`
	Slice     string  `json:"slice,omitempty"` // "", copy, convert
}

// Leaf is a destination field (or an inner struct field that is descended into).
type Leaf struct {
	Path     string
	Type     types.Type
	Alts     []Alt
	Loose    bool // the statements leave the outcome open (T2, T9, T25 …)
	Why      string
	Class    string // construct class (evidence histogram, fingerprints)
	Explicit string // kind of explicit notation that owns the leaf ("" = default matching)
	Children []*Leaf
	Descend  bool
}

// Plan is the expectation for one method.
type Plan struct {
	Method  *Method
	Eff     Effective
	Sig     *types.Signature
	DstType types.Type // type of the operand that is written (struct, pointers stripped)
	SrcType types.Type
	DstPtr  bool
	SrcPtr  bool
	Extras  []types.Type
	LhsVar  string // name of the written operand in the generated function
	RhsVar  string
	ArgVars []string
	Leaves  []*Leaf
	Home    *types.Package
	World   *World
	Conv    map[string]*types.Signature // converters by the name used in the notation
	// MustNonNil lists source-side pointer paths the value generator keeps non-nil (open finding #21)
}

// FindMethod locates the go/types object of a converter-interface method in the tagged view.
func FindMethod(w *World, iface, name string) (*types.Func, error) {
	home := w.Pkg("home")
	if home == nil {
		return nil, fmt.Errorf("home package does not load: %s", w.ErrText())
	}
	o := home.Scope().Lookup(iface)
	if o == nil {
		return nil, fmt.Errorf("interface %s not found", iface)
	}
	it, ok := o.Type().Underlying().(*types.Interface)
	if !ok {
		return nil, fmt.Errorf("%s is not an interface", iface)
	}
	// the whole method set: a method that comes in through an embedded interface is a method of this interface
	for i := 0; i < it.NumMethods(); i++ {
		if m := it.Method(i); m.Name() == name {
			return m, nil
		}
	}
	return nil, fmt.Errorf("method %s.%s not found", iface, name)
}

func deref(t types.Type) (types.Type, bool) {
	if p, ok := t.(*types.Pointer); ok {
		return p.Elem(), true
	}
	return t, false
}

func structOf(t types.Type) *types.Struct {
	t, _ = deref(t)
	s, _ := t.Underlying().(*types.Struct)
	return s
}

func isError(t types.Type) bool { return t.String() == "error" }

// lookupFunc resolves a function name as written in a notation ("f" or "pkg.f") using the setup
// file's imports.
func lookupFunc(w *World, home *types.Package, imports []Import, name string) *types.Func {
	parts := strings.Split(name, ".")
	if len(parts) == 1 {
		obj := home.Scope().Lookup(name)
		if v, ok := obj.(*types.Var); ok {
			// a package-level variable of function type is callable like a function
			if sg, ok := v.Type().(*types.Signature); ok {
				return types.NewFunc(v.Pos(), home, name, sg)
			}
		}
		if f, _ := obj.(*types.Func); f != nil {
			return f
		}
		// an exported function of a dot-imported package is in the file scope of the setup file
		for _, im := range imports {
			if im.Name == "." {
				if p, err := w.Import(im.Path); err == nil {
					if f, _ := p.Scope().Lookup(name).(*types.Func); f != nil && f.Exported() {
						return f
					}
				}
			}
		}
		return nil
	}
	if len(parts) != 2 {
		return nil
	}
	for _, imp := range home.Imports() {
		if imp.Name() == parts[0] {
			f, _ := imp.Scope().Lookup(parts[1]).(*types.Func)
			if f != nil && f.Exported() {
				return f
			}
		}
	}
	for _, im := range imports {
		if im.Name == parts[0] {
			if p, err := w.Import(im.Path); err == nil {
				f, _ := p.Scope().Lookup(parts[1]).(*types.Func)
				return f
			}
		}
	}
	return nil
}

// NewPlan computes the expectation for a method of a program.
func NewPlan(w *World, prog *Prog, iface *Iface, m *Method) (*Plan, error) {
	fn, err := FindMethod(w, iface.Name, m.Name)
	if err != nil {
		return nil, err
	}
	home := w.Pkg("home")
	sig := fn.Type().(*types.Signature)
	p := &Plan{Method: m, Eff: EffectiveOpts(iface.Opts, m.Opts), Sig: sig, Home: home, World: w, Conv: map[string]*types.Signature{}}
	if sig.Params().Len() == 0 || sig.Results().Len() == 0 {
		return nil, fmt.Errorf("method %s has no operands", m.Name)
	}
	srcOp, dstOp := sig.Params().At(0), sig.Results().At(0)
	srcName, dstName := srcOp.Name(), dstOp.Name()
	defSrc, defDst := "src", "dst"
	if m.Reverse {
		defSrc, defDst = "dst", "src"
	}
	if srcName == "" || srcName == "_" {
		srcName = defSrc
	}
	if dstName == "" || dstName == "_" {
		dstName = defDst
	}
	if m.Recv != "" {
		srcName = m.Recv
	}
	for i := 1; i < sig.Params().Len(); i++ {
		p.Extras = append(p.Extras, sig.Params().At(i).Type())
		n := sig.Params().At(i).Name()
		if n == "" || n == "_" || strings.HasPrefix(n, "_p") {
			n = fmt.Sprintf("arg%d", i-1)
		}
		p.ArgVars = append(p.ArgVars, n)
	}
	if m.Reverse {
		p.DstType, p.DstPtr = deref(srcOp.Type())
		p.SrcType, p.SrcPtr = deref(dstOp.Type())
		p.LhsVar, p.RhsVar = srcName, dstName
	} else {
		p.DstType, p.DstPtr = deref(dstOp.Type())
		p.SrcType, p.SrcPtr = deref(srcOp.Type())
		p.LhsVar, p.RhsVar = dstName, srcName
	}
	if structOf(p.DstType) == nil || structOf(p.SrcType) == nil {
		return nil, fmt.Errorf("method %s: operands are not structs", m.Name)
	}
	for _, n := range m.Notes {
		if n.Kind == "conv" && len(n.Args) >= 2 {
			if f := lookupFunc(w, home, prog.Imports, n.Args[0]); f != nil {
				p.Conv[n.Args[0]] = f.Type().(*types.Signature)
			} else {
				// another method being generated in the same run
				for _, it := range prog.Ifaces {
					for k := range it.Methods {
						om := &it.Methods[k]
						if om.Name == n.Args[0] && om.Recv == "" && EffectiveOpts(it.Opts, om.Opts).Style == "return" {
							if of, err := FindMethod(w, it.Name, om.Name); err == nil {
								p.Conv[n.Args[0]] = of.Type().(*types.Signature)
							}
						}
					}
				}
			}
		}
	}
	root := &Source{Root: 0, Type: p.SrcOperandType(), Addr: true}
	p.Leaves = p.structLeaves("", p.DstType, root)
	return p, nil
}

// SrcOperandType is the type of the source variable in the generated function (pointer or value).
func (p *Plan) SrcOperandType() types.Type {
	if p.SrcPtr {
		return types.NewPointer(p.SrcType)
	}
	return p.SrcType
}

func (p *Plan) external(pkg *types.Package) bool { return pkg != nil && pkg != p.Home }

// visibleField reports whether a struct member can be named from the home package.
func (p *Plan) visibleField(container types.Type, f *types.Var) bool {
	if f.Name() == "_" {
		return false // a blank field can be neither read nor written
	}
	if f.Exported() {
		return true
	}
	return !p.external(f.Pkg())
}

func joinPath(a, b string) string {
	if a == "" {
		return b
	}
	return a + "." + b
}

func (p *Plan) eqName(a, b string) bool {
	if p.Eff.Case {
		return a == b
	}
	return strings.EqualFold(a, b)
}

// skipped implements the :skip rule on a destination path.
func (p *Plan) skipped(path string) bool {
	for _, n := range p.Method.Notes {
		if n.Kind != "skip" || len(n.Args) == 0 {
			continue
		}
		pat := n.Args[0]
		if strings.HasPrefix(pat, "/") && strings.HasSuffix(pat, "/") && len(pat) >= 2 {
			expr := pat[1 : len(pat)-1]
			if !p.Eff.Case {
				expr = "(?i)" + expr
			}
			if re, err := regexp.Compile(expr); err == nil && re.MatchString(path) {
				return true
			}
			continue
		}
		if p.Eff.Case && pat == path || !p.Eff.Case && strings.EqualFold(pat, path) {
			return true
		}
	}
	return false
}

// explicitFor lists the explicit notations that name the destination path.
func (p *Plan) explicitFor(path string) []Notation {
	var out []Notation
	for _, n := range p.Method.Notes {
		switch n.Kind {
		case "conv":
			if len(n.Args) >= 3 && n.Args[2] == path || len(n.Args) == 2 && n.Args[1] == path {
				out = append(out, n)
			}
		case "map":
			if len(n.Args) >= 2 && n.Args[1] == path {
				out = append(out, n)
			}
		case "literal":
			if len(n.Args) >= 2 && n.Args[0] == path {
				out = append(out, n)
			}
		}
	}
	return out
}

// notationBelow reports whether some notation addresses a proper sub-path of path.
func (p *Plan) notationBelow(path string, t types.Type) bool {
	pre := path + "."
	for _, n := range p.Method.Notes {
		var d string
		switch n.Kind {
		case "conv":
			if len(n.Args) >= 3 {
				d = n.Args[2]
			} else if len(n.Args) == 2 {
				d = n.Args[1]
			}
		case "map":
			if len(n.Args) >= 2 {
				d = n.Args[1]
			}
		case "literal":
			if len(n.Args) >= 1 {
				d = n.Args[0]
			}
		}
		if strings.HasPrefix(d, pre) {
			return true
		}
	}
	// a :skip pattern that matches some field below, at any depth
	if st := structOf(t); st != nil {
		if _, isPtr := t.(*types.Pointer); !isPtr {
			for i := 0; i < st.NumFields(); i++ {
				f := st.Field(i)
				if !p.visibleField(t, f) {
					continue
				}
				fp := joinPath(path, f.Name())
				if p.skipped(fp) || byValueStruct(f.Type()) && len(path) < 200 && p.notationBelow(fp, f.Type()) {
					return true
				}
			}
		}
	}
	return false
}

// ResolvePath resolves a source path written in a notation, with Go's own rules: accessibility of
// unexported members of other packages, addressability for pointer-receiver methods, getter shape.
func (p *Plan) ResolvePath(root *Source, path string) *Source {
	cur := &Source{Root: root.Root, Path: root.Path, Type: root.Type, Addr: root.Addr, PtrHops: append([]string{}, root.PtrHops...), Getters: append([]string{}, root.Getters...)}
	if path == "" {
		return cur
	}
	segs := strings.Split(path, ".")
	for i, seg := range segs {
		last := i == len(segs)-1
		if cur.RetErr {
			return nil // a (T, error) getter cannot be continued
		}
		isCall := strings.HasSuffix(seg, "()")
		name := strings.TrimSuffix(seg, "()")
		if name == "" || strings.ContainsAny(name, "()") {
			return nil
		}
		_, isPtr := deref(cur.Type)
		// the selector is written in the home package: an unexported name is found iff the home package declared it
		// (also inside an anonymous struct, which has no package of its own)
		obj, _, _ := types.LookupFieldOrMethod(cur.Type, cur.Addr, p.Home, name)
		if obj == nil {
			return nil
		}
		if !obj.Exported() && p.external(obj.Pkg()) {
			return nil
		}
		if isPtr {
			cur.PtrHops = append(cur.PtrHops, cur.Path)
		}
		next := &Source{Root: cur.Root, Path: joinPath(cur.Path, seg), PtrHops: cur.PtrHops, Getters: cur.Getters}
		switch o := obj.(type) {
		case *types.Var:
			if isCall {
				return nil
			}
			next.Type = o.Type()
			next.Addr = cur.Addr || isPtr
		case *types.Func:
			if !isCall {
				return nil
			}
			sg := o.Type().(*types.Signature)
			if sg.Params().Len() != 0 || sg.Results().Len() == 0 || sg.Results().Len() > 2 {
				return nil
			}
			if sg.Results().Len() == 2 {
				if !isError(sg.Results().At(1).Type()) {
					return nil
				}
				next.RetErr = true
			}
			next.Type = sg.Results().At(0).Type()
			next.Addr = false
			next.Getters = append(append([]string{}, cur.Getters...), name)
		default:
			return nil
		}
		_ = last
		cur = next
	}
	return cur
}

// hasValueStringer implements T24: a named non-pointer (or interface) type whose value method set has
// String() string.
func hasStringer(t types.Type) (value, any bool) {
	isStr := func(o types.Object) bool {
		f, ok := o.(*types.Func)
		if !ok {
			return false
		}
		sg := f.Type().(*types.Signature)
		return sg.Params().Len() == 0 && sg.Results().Len() == 1 && sg.Results().At(0).Type().String() == "string"
	}
	base, isPtr := deref(t)
	if _, ok := base.(*types.Named); !ok {
		return false, false
	}
	ov, _, _ := types.LookupFieldOrMethod(base, false, nil, "String")
	oa, _, _ := types.LookupFieldOrMethod(base, true, nil, "String")
	v := ov != nil && isStr(ov)
	a := oa != nil && isStr(oa)
	if isPtr {
		// a pointer-typed source: callable, but nil at run time is a risk (T24: either outcome)
		return false, v || a
	}
	return v, a
}

// castAlts lists the acceptable ways to put a value of type from into a field of type to.
// required=false means "no match" is acceptable as well (T4, T24).
func (p *Plan) castAlts(from, to types.Type) (convs []string, noMatchOK bool) {
	if types.AssignableTo(from, to) {
		return []string{""}, false
	}
	noMatchOK = true
	strT := types.Typ[types.String]
	if p.Eff.Stringer && types.AssignableTo(strT, to) {
		v, a := hasStringer(from)
		if v {
			convs = append(convs, "stringer")
			noMatchOK = false
		} else if a {
			convs = append(convs, "stringer")
		}
	}
	if p.Eff.Typecast && types.ConvertibleTo(from, to) {
		convs = append(convs, "typecast")
		// T4: required for basic and named non-pointer destination types, optional otherwise
		switch to.(type) {
		case *types.Basic, *types.Named:
			noMatchOK = false
		}
	}
	return convs, noMatchOK
}

func sliceElem(t types.Type) types.Type {
	// named slice types are slices too (C16 speaks of slice fields, not of unnamed slice types)
	if s, ok := t.Underlying().(*types.Slice); ok {
		return s.Elem()
	}
	return nil
}

// valueAlts computes the alternatives for assigning src (a resolved source) to a field of type to,
// following the default-match rules (also used by :map).
func (p *Plan) valueAlts(src *Source, to types.Type) []Alt {
	desc := fmt.Sprintf("$%d.%s", src.Root+1, src.Path)
	if src.RetErr {
		if !p.Method.RetErr {
			return []Alt{{Kind: "nomatch"}} // C07: an error has nowhere to go
		}
		if types.AssignableTo(src.Type, to) {
			return []Alt{{Kind: "assign", Src: src, SrcDesc: desc}}
		}
		return []Alt{{Kind: "nomatch"}}
	}
	// slices: fresh storage (C16)
	if se, de := sliceElem(src.Type), sliceElem(to); se != nil && de != nil {
		if types.AssignableTo(se, de) {
			return []Alt{{Kind: "assign", Src: src, SrcDesc: desc, Slice: "copy"}}
		}
		if p.Eff.Typecast && types.ConvertibleTo(se, de) {
			alts := []Alt{{Kind: "assign", Src: src, SrcDesc: desc, Slice: "convert"}}
			switch de.(type) {
			case *types.Basic, *types.Named:
			default:
				alts = append(alts, Alt{Kind: "nomatch"}) // T4 for pointer / composite element types
			}
			return alts
		}
	}
	convs, noMatchOK := p.castAlts(src.Type, to)
	var alts []Alt
	for _, c := range convs {
		alts = append(alts, Alt{Kind: "assign", Src: src, SrcDesc: desc, Conv: c})
	}
	if noMatchOK || len(alts) == 0 {
		alts = append(alts, Alt{Kind: "nomatch"})
	}
	return alts
}

// explicitAlts computes the alternatives for one explicit notation on a destination field.
func (p *Plan) explicitAlts(n Notation, to types.Type) (alts []Alt, loose bool, why string) {
	root := &Source{Root: 0, Type: p.SrcOperandType(), Addr: true}
	resolve := func(path string) *Source {
		if strings.HasPrefix(path, "$") {
			segs := strings.SplitN(path, ".", 2)
			k, err := strconv.Atoi(segs[0][1:])
			if err != nil || k < 1 || k > 1+len(p.Extras) {
				return nil
			}
			r := root
			if k >= 2 {
				r = &Source{Root: k - 1, Type: p.Extras[k-2], Addr: true}
			}
			if len(segs) == 1 {
				return p.ResolvePath(r, "")
			}
			return p.ResolvePath(r, segs[1])
		}
		return p.ResolvePath(root, path)
	}
	switch n.Kind {
	case "literal":
		lit := strings.Join(n.Args[1:], " ")
		return []Alt{{Kind: "assign", Literal: lit}}, false, ""
	case "map":
		src := resolve(n.Args[0])
		if src == nil {
			return []Alt{{Kind: "nomatch"}}, false, "unresolvable source"
		}
		alts = p.valueAlts(src, to)
		// C16 demands fresh storage for slices copied by name match only; for an explicit :map a plain
		// assignment of the slice value is the value "denoted by that source path" just as well
		var more []Alt
		for _, a := range alts {
			if a.Slice != "" {
				// the slice value as a whole: assigned directly, or through an opted-in conversion of the slice type
				convs, _ := p.castAlts(src.Type, to)
				for _, c := range convs {
					more = append(more, Alt{Kind: "assign", Src: src, SrcDesc: a.SrcDesc, Conv: c})
				}
				if !types.AssignableTo(src.Type, to) {
					more = append(more, Alt{Kind: "nomatch"})
				}
			}
		}
		return append(alts, more...), false, ""
	case "conv":
		sg := p.Conv[n.Args[0]]
		if sg == nil || sg.Params().Len() != 1 || sg.Results().Len() < 1 || sg.Results().Len() > 2 {
			return nil, true, "converter not resolvable by the harness"
		}
		if strings.HasPrefix(n.Args[1], "$") {
			return nil, true, "$n source in :conv is not documented"
		}
		src := resolve(n.Args[1])
		if src == nil || src.RetErr {
			return []Alt{{Kind: "nomatch"}}, false, "unresolvable source"
		}
		retErr := sg.Results().Len() == 2
		if retErr && !p.Method.RetErr {
			return []Alt{{Kind: "nomatch"}}, false, "error converter without error result"
		}
		argT, resT := sg.Params().At(0).Type(), sg.Results().At(0).Type()
		desc := fmt.Sprintf("$1.%s", src.Path)
		direct := true
		var argAlts []Alt
		if types.AssignableTo(src.Type, argT) {
			argAlts = append(argAlts, Alt{Kind: "assign", Src: src, SrcDesc: desc, Converter: n.Args[0], ConvErr: retErr})
		} else {
			if pt, ok := argT.(*types.Pointer); ok && types.Identical(src.Type, pt.Elem()) && src.Addr {
				argAlts = append(argAlts, Alt{Kind: "assign", Src: src, SrcDesc: desc, Converter: n.Args[0], ConvErr: retErr, ArgAddr: true})
			} else {
				direct = false
				cs, _ := p.castAlts(src.Type, argT)
				for _, c := range cs {
					argAlts = append(argAlts, Alt{Kind: "assign", Src: src, SrcDesc: desc, Converter: n.Args[0], ConvErr: retErr, ArgConv: c})
				}
			}
		}
		if len(argAlts) == 0 {
			return []Alt{{Kind: "nomatch"}}, false, "argument does not fit"
		}
		if types.AssignableTo(resT, to) {
			alts = argAlts
		} else if !retErr {
			direct = false
			cs, _ := p.castAlts(resT, to)
			for _, a := range argAlts {
				for _, c := range cs {
					a2 := a
					a2.Conv = c
					alts = append(alts, a2)
				}
			}
		}
		if len(alts) == 0 {
			return []Alt{{Kind: "nomatch"}}, false, "result does not fit"
		}
		if !direct {
			alts = append(alts, Alt{Kind: "nomatch"}) // T26
		}
		return alts, false, ""
	}
	return nil, true, "unknown notation"
}

// candidates lists same-named members of the source struct in the two passes.
func (p *Plan) candidates(src *Source, name string) (getters, fields []*Source, promoted bool) {
	base, _ := deref(src.Type)
	if p.Eff.Getter {
		if named, ok := base.(*types.Named); ok {
			for i := 0; i < named.NumMethods(); i++ {
				m := named.Method(i)
				sg := m.Type().(*types.Signature)
				if sg.Params().Len() != 0 || sg.Results().Len() != 1 || isError(sg.Results().At(0).Type()) {
					continue
				}
				if !p.eqName(name, m.Name()) || !m.Exported() && p.external(m.Pkg()) {
					continue
				}
				if r := p.ResolvePath(src, m.Name()+"()"); r != nil {
					getters = append(getters, r)
				}
				// else: not callable (pointer receiver on a value that is not addressable - the result of a getter, or a
				// field of one): no candidate at all; using it would not compile (C01), so nothing is left open here
			}
		}
	}
	if st := structOf(src.Type); st != nil {
		for i := 0; i < st.NumFields(); i++ {
			f := st.Field(i)
			if !p.eqName(name, f.Name()) || !p.visibleField(src.Type, f) {
				continue
			}
			if r := p.ResolvePath(src, f.Name()); r != nil {
				fields = append(fields, r)
			}
		}
		// promoted members through embedding are neither required nor forbidden (T25)
		if len(fields) == 0 {
			for i := 0; i < st.NumFields(); i++ {
				if f := st.Field(i); f.Embedded() {
					if es := structOf(f.Type()); es != nil {
						for j := 0; j < es.NumFields(); j++ {
							if p.eqName(name, es.Field(j).Name()) {
								promoted = true
							}
						}
					}
				}
			}
		}
	}
	return
}

func typeClass(t types.Type) string {
	switch x := t.(type) {
	case *types.Basic:
		return "basic"
	case *types.Named:
		switch x.Underlying().(type) {
		case *types.Struct:
			return "named-struct"
		case *types.Interface:
			return "named-interface"
		case *types.Slice:
			return "named-slice"
		}
		return "named"
	case *types.Pointer:
		return "ptr(" + typeClass(x.Elem()) + ")"
	case *types.Slice:
		return "slice(" + typeClass(x.Elem()) + ")"
	case *types.Struct:
		return "anon-struct"
	case *types.Interface:
		return "interface"
	case *types.Map:
		return "map"
	case *types.Array:
		return "array"
	case *types.Chan:
		return "chan"
	case *types.Signature:
		return "func"
	}
	return "other"
}

// structLeaves applies the per-field decision procedure to every visible field of a destination
// struct against the corresponding source struct.
func (p *Plan) structLeaves(prefix string, dstT types.Type, src *Source) []*Leaf {
	st := structOf(dstT)
	var out []*Leaf
	for i := 0; i < st.NumFields(); i++ {
		f := st.Field(i)
		if !p.visibleField(dstT, f) {
			continue
		}
		out = append(out, p.decide(joinPath(prefix, f.Name()), f, src))
	}
	return out
}

func byValueStruct(t types.Type) bool {
	if _, isPtr := t.(*types.Pointer); isPtr {
		return false
	}
	_, ok := t.Underlying().(*types.Struct)
	return ok
}

// decide implements the decision procedure of DESIGN.md appendix A for one destination field.
func (p *Plan) decide(path string, f *types.Var, src *Source) *Leaf {
	lf := &Leaf{Path: path, Type: f.Type(), Class: typeClass(f.Type())}
	// 1. :skip wins over everything
	if p.skipped(path) {
		lf.Alts = []Alt{{Kind: "skip"}}
		lf.Explicit = "skip"
		lf.Class = "skip"
		return lf
	}
	// 2. explicit notations
	if ex := p.explicitFor(path); len(ex) > 0 {
		lf.Explicit = ex[0].Kind
		lf.Class = ex[0].Kind + "@" + map[bool]string{true: "nested", false: "top"}[strings.Contains(path, ".")]
		if len(ex) > 1 {
			lf.Loose, lf.Why = true, "T2: several explicit notations name this path"
			return lf
		}
		lf.Alts, lf.Loose, lf.Why = p.explicitAlts(ex[0], f.Type())
		return lf
	}
	// 3. notations below this path: the field must be descended into, not copied as a whole
	below := byValueStruct(f.Type()) && p.notationBelow(path, f.Type())
	// 4. :match none
	if p.Eff.Match == "none" {
		if below {
			lf.Loose, lf.Why = true, "nested notation under :match none"
			return lf
		}
		lf.Alts = []Alt{{Kind: "nomatch"}}
		lf.Class = "match-none"
		return lf
	}
	// 5. name match: getters first, then fields
	getters, fields, promoted := p.candidates(src, f.Name())
	try := func(cands []*Source) (alts []Alt, descend *Source) {
		for _, c := range cands {
			if !below {
				for _, a := range p.valueAlts(c, f.Type()) {
					if a.Kind == "assign" {
						alts = append(alts, a)
					}
				}
			}
			if byValueStruct(f.Type()) && byValueStruct(c.Type) && (below || !types.AssignableTo(c.Type, f.Type())) {
				if descend == nil {
					descend = c
				}
			}
		}
		return
	}
	gAlts, gDesc := try(getters)
	fAlts, fDesc := try(fields)
	nCands := len(getters) + len(fields)
	switch {
	case len(gAlts) > 0:
		lf.Alts = gAlts
		lf.Class = "getter:" + lf.Class
	case gDesc != nil:
		lf.Descend = true
		lf.Children = p.structLeaves(path, f.Type(), gDesc)
		lf.Class = "nested-via-getter"
	case len(fAlts) > 0:
		lf.Alts = fAlts
		if len(getters) > 0 {
			// a same-named getter exists but does not fit: "getters win over fields" leaves open whether the
			// field may step in
			lf.Alts = append(lf.Alts, Alt{Kind: "nomatch"})
		}
	case fDesc != nil:
		lf.Descend = true
		lf.Children = p.structLeaves(path, f.Type(), fDesc)
		lf.Class = "nested"
	default:
		lf.Alts = []Alt{{Kind: "nomatch"}}
	}
	if lf.Descend && len(lf.Children) == 0 {
		// a struct without any visible member is itself a leaf (C05)
		lf.Descend = false
		lf.Alts = []Alt{{Kind: "nomatch"}}
		lf.Class = "nested-without-visible-member"
	}
	// tolerances
	optional := false
	for _, a := range lf.Alts {
		if a.Kind == "assign" {
			// valueAlts may have said that "no match" is acceptable too (T4/T24)
			for _, c := range append(getters, fields...) {
				if a.Src == c {
					for _, va := range p.valueAlts(c, f.Type()) {
						if va.Kind == "nomatch" {
							optional = true
						}
					}
				}
			}
		}
	}
	if optional {
		lf.Alts = append(lf.Alts, Alt{Kind: "nomatch"})
	}
	if promoted && !lf.Descend && len(lf.Alts) == 1 && lf.Alts[0].Kind == "nomatch" {
		lf.Loose, lf.Why = true, "T25: only a promoted or non-callable candidate exists"
	}
	if nCands > 1 {
		lf.Class = "multi-candidate:" + lf.Class
		// T9: several same-named candidates (case-insensitive match, or a getter next to a field). The
		// statements do not say which one is meant when they lead to different decisions (one castable,
		// another only descendable or not usable at all): the outcome is left open then. When every
		// candidate is castable any of their values is accepted (and nothing else).
		castable, other := 0, 0
		for _, c := range append(append([]*Source{}, getters...), fields...) {
			ok := false
			for _, a := range p.valueAlts(c, f.Type()) {
				if a.Kind == "assign" {
					ok = true
				}
			}
			if ok {
				castable++
			} else {
				other++
			}
		}
		if castable > 0 && other > 0 || other > 1 && (gDesc != nil || fDesc != nil) {
			lf.Loose, lf.Why = true, "T9: same-named candidates lead to different decisions"
			lf.Descend, lf.Children = false, nil
		}
	}
	if below && !lf.Descend && !lf.Loose {
		lf.Loose, lf.Why = true, "nested notation but nothing to descend into"
	}
	return lf
}

// Walk visits every leaf (descended inner nodes are visited before their children).
func (p *Plan) Walk(fn func(*Leaf)) {
	var rec func(ls []*Leaf)
	rec = func(ls []*Leaf) {
		for _, l := range ls {
			fn(l)
			if l.Descend {
				rec(l.Children)
			}
		}
	}
	rec(p.Leaves)
}

// IsExportedIdent is ast.IsExported (kept here so that callers need not import go/ast).
func IsExportedIdent(n string) bool { return ast.IsExported(n) }
