package pg

import (
	"fmt"
	"sort"
	"strings"

	"verif/hx"
)

// Field is a struct member. Name "" means an embedded member of that type.
type Field struct {
	Name string `json:"name"`
	Home string `json:"home"`          // type expression in the home package
	Ext  string `json:"ext,omitempty"` // type expression inside package ext
	Kind string `json:"kind,omitempty"`
}

// Getter is a method of a struct that returns (a conversion of) one member.
type Getter struct {
	Name    string `json:"name"`
	Field   string `json:"field"` // backing member
	Type    string `json:"type"`  // result type (expression in the declaring package)
	PtrRecv bool   `json:"ptr_recv,omitempty"`
	RetErr  bool   `json:"ret_err,omitempty"`
	// RetConcreteErr (with RetErr): the second result is *tr.E, a concrete type that implements error - not the
	// documented (T, error) shape, so the method is no getter (a nil *tr.E stored in an error is not nil)
	RetConcreteErr bool `json:"ret_concrete_err,omitempty"`
}

// StructDecl is a generated named struct type.
type StructDecl struct {
	Pkg     string   `json:"pkg"` // "home" or "ext"
	Name    string   `json:"name"`
	Fields  []Field  `json:"fields"`
	Getters []Getter `json:"getters,omitempty"`
}

// Param is an additional argument of a method.
type Param struct {
	Name string `json:"name,omitempty"`
	Type string `json:"type"`
}

// Tri is a three-valued toggle: 0 unset, 1 on, 2 off.
type Tri int

// Toggles are the inheritable notations.
type Toggles struct {
	Style    string `json:"style,omitempty"` // "", return, arg
	Match    string `json:"match,omitempty"` // "", name, none
	Case     Tri    `json:"case,omitempty"`
	Getter   Tri    `json:"getter,omitempty"`
	Stringer Tri    `json:"stringer,omitempty"`
	Typecast Tri    `json:"typecast,omitempty"`
}

// Lines renders the toggles as notation lines in a fixed order.
func (g Toggles) Lines() []string {
	var out []string
	if g.Style != "" {
		out = append(out, ":style "+g.Style)
	}
	if g.Match != "" {
		out = append(out, ":match "+g.Match)
	}
	add := func(t Tri, name string) {
		switch t {
		case 1:
			out = append(out, ":"+name)
		case 2:
			out = append(out, ":"+name+":off")
		}
	}
	add(g.Case, "case")
	add(g.Getter, "getter")
	add(g.Stringer, "stringer")
	add(g.Typecast, "typecast")
	return out
}

// Notation is one method-level notation other than the toggles.
type Notation struct {
	Kind string   `json:"kind"` // skip map conv literal preprocess postprocess recv reverse (or raw text for hostile input)
	Args []string `json:"args,omitempty"`
}

// Line renders the notation.
func (n Notation) Line() string {
	if len(n.Args) == 0 {
		return ":" + n.Kind
	}
	return ":" + n.Kind + " " + strings.Join(n.Args, " ")
}

// Method is one method of a converter interface.
type Method struct {
	Name     string     `json:"name"`
	SrcType  string     `json:"src_type"` // home-context expression without the pointer star
	SrcPtr   bool       `json:"src_ptr"`
	SrcName  string     `json:"src_name,omitempty"`
	DstType  string     `json:"dst_type"`
	DstPtr   bool       `json:"dst_ptr"`
	DstName  string     `json:"dst_name,omitempty"`
	RetErr   bool       `json:"ret_err,omitempty"`
	Extras   []Param    `json:"extras,omitempty"`
	Recv     string     `json:"recv,omitempty"`
	Reverse  bool       `json:"reverse,omitempty"`
	Opts     Toggles    `json:"opts"`
	Notes    []Notation `json:"notes,omitempty"`
	Doc      []string   `json:"doc,omitempty"`      // plain doc lines (without //)
	DocAfter []string   `json:"docAfter,omitempty"` // plain doc lines after the notations
	Trailing string     `json:"trailing,omitempty"` // trailing comment on the method line
	// TogglesLast renders the toggle notations after the other notations (the effective options of a
	// method do not depend on the order of its notation lines).
	TogglesLast bool `json:"toggles_last,omitempty"`
}

// Iface is one converter interface.
type Iface struct {
	Name       string   `json:"name"`
	Marked     bool     `json:"marked,omitempty"` // carries ":convergen"
	Opts       Toggles  `json:"opts"`
	Doc        []string `json:"doc,omitempty"`
	GoGenerate bool     `json:"go_generate,omitempty"`
	Methods    []Method `json:"methods"`
	// EmbedLast: the last EmbedLast methods are declared - comments, notations and all - in an unmarked interface
	// "<Name>Base" of the setup file that this interface embeds. They are methods of the converter interface like the
	// others (one function each, their notations apply); nothing else about the program changes.
	EmbedLast int `json:"embed_last,omitempty"`
}

// Import is one import spec of the setup file.
type Import struct {
	Name string `json:"name,omitempty"` // alias, "_" or ""
	Path string `json:"path"`
}

// Prog is a generated program: type declarations, user functions and the setup file.
type Prog struct {
	Structs    []StructDecl `json:"structs"`
	Imports    []Import     `json:"imports"`
	Ifaces     []Iface      `json:"ifaces"`
	SetupFuncs string       `json:"setup_funcs,omitempty"` // Go declarations kept in the setup file (carried over)
	HomeFuncs  string       `json:"home_funcs,omitempty"`  // Go declarations in home/funcs.go (ordinary build)
	ExtFuncs   string       `json:"ext_funcs,omitempty"`   // Go declarations appended to package ext
	OldTag     bool         `json:"old_tag,omitempty"`     // also emit "// +build convergen"
	PkgDoc     []string     `json:"pkg_doc,omitempty"`
	// GoGenerateAtPackage puts a go:generate line directly above the package clause
	GoGenerateAtPackage bool     `json:"go_generate_at_package,omitempty"`
	ExtraFiles          hx.Files `json:"extra_files,omitempty"`
	// BlankImportFieldPkgs: the setup file blank-imports packages that only field types of local
	// structs mention (keeps generators away from the "sibling-only import" construct when wanted).
	BlankImportFieldPkgs bool `json:"blank_import_field_pkgs,omitempty"`
}

// SetupPath is where the setup file lives inside the module.
const SetupPath = "home/setup.go"

// OutPath is the default output path.
const OutPath = "home/setup.gen.go"

func renderStruct(sb *strings.Builder, s StructDecl) {
	fmt.Fprintf(sb, "type %s struct {\n", s.Name)
	for _, f := range s.Fields {
		t := f.Home
		if s.Pkg == "ext" {
			t = f.Ext
		}
		if f.Name == "" {
			fmt.Fprintf(sb, "\t%s\n", t)
		} else {
			fmt.Fprintf(sb, "\t%s %s\n", f.Name, t)
		}
	}
	sb.WriteString("}\n\n")
	site := s.Name
	if s.Pkg == "ext" {
		site = "ext." + s.Name
	}
	for _, g := range s.Getters {
		recv := "x " + s.Name
		if g.PtrRecv {
			recv = "x *" + s.Name
		}
		if g.RetErr && g.RetConcreteErr {
			fmt.Fprintf(sb, "func (%s) %s() (%s, *tr.E) { tr.Hit(%q); return x.%s, nil }\n\n", recv, g.Name, g.Type, "m:"+site+"."+g.Name, g.Field)
		} else if g.RetErr {
			fmt.Fprintf(sb, "func (%s) %s() (%s, error) { err := tr.HitE(%q); return x.%s, err }\n\n", recv, g.Name, g.Type, "m:"+site+"."+g.Name, g.Field)
		} else {
			fmt.Fprintf(sb, "func (%s) %s() %s { tr.Hit(%q); return x.%s }\n\n", recv, g.Name, g.Type, "m:"+site+"."+g.Name, g.Field)
		}
	}
}

// MethodLine renders the method signature line.
func (m Method) MethodLine() string {
	var sb strings.Builder
	sb.WriteString(m.Name)
	sb.WriteString("(")
	st := m.SrcType
	if m.SrcPtr {
		st = "*" + st
	}
	named := m.SrcName != ""
	for _, e := range m.Extras {
		if e.Name != "" {
			named = true
		}
	}
	if named {
		n := m.SrcName
		if n == "" {
			n = "_"
		}
		sb.WriteString(n + " ")
	}
	sb.WriteString(st)
	for i, e := range m.Extras {
		sb.WriteString(", ")
		if named {
			n := e.Name
			if n == "" {
				n = fmt.Sprintf("_p%d", i)
			}
			sb.WriteString(n + " ")
		}
		sb.WriteString(e.Type)
	}
	sb.WriteString(") ")
	dt := m.DstType
	if m.DstPtr {
		dt = "*" + dt
	}
	switch {
	case m.DstName != "" && m.RetErr:
		fmt.Fprintf(&sb, "(%s %s, err error)", m.DstName, dt)
	case m.DstName != "":
		fmt.Fprintf(&sb, "(%s %s)", m.DstName, dt)
	case m.RetErr:
		fmt.Fprintf(&sb, "(%s, error)", dt)
	default:
		sb.WriteString(dt)
	}
	return sb.String()
}

// NotationLines lists all notation lines of the method in source order.
func (m Method) NotationLines() []string {
	var out []string
	if !m.TogglesLast {
		out = m.Opts.Lines()
	}
	if m.Recv != "" {
		out = append(out, ":recv "+m.Recv)
	}
	for _, n := range m.Notes {
		out = append(out, n.Line())
	}
	if m.TogglesLast {
		out = append(out, m.Opts.Lines()...)
	}
	if m.Reverse {
		// after :style (":reverse" is validated against the style seen so far - documented: needs :style arg)
		out = append(out, ":reverse")
	}
	return out
}

// RenderSetup renders the setup file.
func (p *Prog) RenderSetup() string {
	var sb strings.Builder
	sb.WriteString("//go:build convergen\n")
	if p.OldTag {
		sb.WriteString("// +build convergen\n")
	}
	sb.WriteString("\n")
	for _, l := range p.PkgDoc {
		sb.WriteString("// " + l + "\n")
	}
	if p.GoGenerateAtPackage {
		sb.WriteString("//go:generate go run github.com/reedom/convergen@v0.8.0\n")
	}
	sb.WriteString("package home\n\n")
	if len(p.Imports) > 0 {
		sb.WriteString("import (\n")
		for _, im := range p.Imports {
			if im.Name != "" {
				fmt.Fprintf(&sb, "\t%s %q\n", im.Name, im.Path)
			} else {
				fmt.Fprintf(&sb, "\t%q\n", im.Path)
			}
		}
		sb.WriteString(")\n\n")
	}
	for _, it := range p.Ifaces {
		if it.GoGenerate {
			sb.WriteString("//go:generate go run github.com/reedom/convergen@v0.8.0\n")
		}
		for _, l := range it.Doc {
			sb.WriteString("// " + l + "\n")
		}
		if it.Marked {
			sb.WriteString("// :convergen\n")
		}
		for _, l := range it.Opts.Lines() {
			sb.WriteString("// " + l + "\n")
		}
		own := it.Methods
		var base []Method
		if k := it.EmbedLast; k > 0 && k <= len(own) {
			own, base = it.Methods[:len(it.Methods)-k], it.Methods[len(it.Methods)-k:]
		}
		fmt.Fprintf(&sb, "type %s interface {\n", it.Name)
		if len(base) > 0 {
			sb.WriteString("\t" + it.Name + "Base\n")
		}
		renderMethods := func(ms []Method) {
			for _, m := range ms {
				for _, l := range m.Doc {
					sb.WriteString("\t// " + l + "\n")
				}
				for _, l := range m.NotationLines() {
					sb.WriteString("\t// " + l + "\n")
				}
				for _, l := range m.DocAfter {
					sb.WriteString("\t// " + l + "\n")
				}
				sb.WriteString("\t" + m.MethodLine())
				if m.Trailing != "" {
					sb.WriteString(" // " + m.Trailing)
				}
				sb.WriteString("\n")
			}
		}
		if len(base) > 0 {
			renderMethods(own)
			sb.WriteString("}\n\n")
			fmt.Fprintf(&sb, "type %sBase interface {\n", it.Name)
			renderMethods(base)
			sb.WriteString("}\n\n")
			continue
		}
		for _, m := range it.Methods {
			for _, l := range m.Doc {
				sb.WriteString("\t// " + l + "\n")
			}
			for _, l := range m.NotationLines() {
				sb.WriteString("\t// " + l + "\n")
			}
			for _, l := range m.DocAfter {
				sb.WriteString("\t// " + l + "\n")
			}
			sb.WriteString("\t" + m.MethodLine())
			if m.Trailing != "" {
				sb.WriteString(" // " + m.Trailing)
			}
			sb.WriteString("\n")
		}
		sb.WriteString("}\n\n")
	}
	if p.SetupFuncs != "" {
		sb.WriteString(p.SetupFuncs)
		sb.WriteString("\n")
	}
	return sb.String()
}

// Files materialises the whole scratch module.
func (p *Prog) Files() hx.Files {
	fs := hx.Files{
		{Name: "go.mod", Data: GoMod},
		{Name: "tr/tr.go", Data: TrSrc},
		{Name: "odd-dir/odd.go", Data: OddSrc},
		{Name: "lib/v2/lib.go", Data: LibV2Src},
		{Name: "a/model/model.go", Data: ModelASrc},
		{Name: "b/model/model.go", Data: ModelBSrc},
		{Name: "enums/enums.go", Data: EnumsSrc},
		{Name: "other/home/home.go", Data: OtherHomeSrc},
		{Name: "deep/audit/audit.go", Data: AuditSrc},
		{Name: "hooks/hooks.go", Data: HooksSrc},
		{Name: "hooks/v2/hooks.go", Data: HooksV2Src},
		{Name: "dotfn/dotfn.go", Data: DotFnSrc},
	}
	var ext, home strings.Builder
	ext.WriteString(ExtSrc)
	ext.WriteString("\n")
	for _, s := range p.Structs {
		if s.Pkg == "ext" {
			renderStruct(&ext, s)
		} else {
			renderStruct(&home, s)
		}
	}
	if p.ExtFuncs != "" {
		ext.WriteString(p.ExtFuncs)
	}
	fs = append(fs, hx.File{Name: "ext/ext.go", Data: ext.String()})
	fs = append(fs, hx.File{Name: "home/zoo.go", Data: LocalZooSrc})
	if home.Len() > 0 {
		fs = append(fs, hx.File{Name: "home/types.go", Data: homeFile(home.String())})
	}
	if p.HomeFuncs != "" {
		fs = append(fs, hx.File{Name: "home/funcs.go", Data: homeFile(p.HomeFuncs)})
	}
	fs = append(fs, hx.File{Name: SetupPath, Data: p.RenderSetup()})
	for _, f := range p.ExtraFiles {
		fs = fs.Set(f.Name, f.Data)
	}
	return fs
}

// usesQual reports whether Go text references the package qualifier q (as "q.").
func usesQual(text, q string) bool {
	for i := 0; ; {
		j := strings.Index(text[i:], q+".")
		if j < 0 {
			return false
		}
		j += i
		if j == 0 || !isIdentByte(text[j-1]) {
			return true
		}
		i = j + 1
	}
}

func isIdentByte(c byte) bool {
	return c == '_' || c == '.' || c >= '0' && c <= '9' || c >= 'a' && c <= 'z' || c >= 'A' && c <= 'Z' || c >= 0x80
}

// homeFile wraps declarations into a file of the home package with the imports they need.
func homeFile(decls string) string {
	var sb strings.Builder
	sb.WriteString("package home\n\n")
	var lines []string
	for _, k := range KnownPkgs {
		if usesQual(decls, k.Qual) {
			if k.Alias != "" {
				lines = append(lines, fmt.Sprintf("\t%s %q\n", k.Alias, k.Path))
			} else {
				lines = append(lines, fmt.Sprintf("\t%q\n", k.Path))
			}
		}
	}
	if len(lines) > 0 {
		sb.WriteString("import (\n" + strings.Join(lines, "") + ")\n\n")
	}
	sb.WriteString(decls)
	return sb.String()
}

// EnsureZoo adds the fixed packages of the current zoo that an (older) archive does not contain;
// the behavioural driver imports all of them.
func EnsureZoo(files hx.Files) hx.Files {
	for _, f := range (&Prog{}).Files() {
		if f.Name == SetupPath || f.Name == "go.mod" {
			continue
		}
		if _, ok := files.Get(f.Name); !ok && !strings.HasPrefix(f.Name, "home/") {
			files = append(files, f)
		}
	}
	return files
}

// AllMethods lists (interface, method) pairs in source order.
func (p *Prog) AllMethods() []*Method {
	var out []*Method
	for i := range p.Ifaces {
		for j := range p.Ifaces[i].Methods {
			out = append(out, &p.Ifaces[i].Methods[j])
		}
	}
	return out
}

// Effective computes the effective options of a method from the documented rule "interface sets the
// default, method overrides".
type Effective struct {
	Style    string
	Match    string
	Case     bool
	Getter   bool
	Stringer bool
	Typecast bool
}

// EffectiveOpts applies the documented inheritance rule.
func EffectiveOpts(iface, method Toggles) Effective {
	e := Effective{Style: "return", Match: "name", Case: true}
	apply := func(g Toggles) {
		if g.Style != "" {
			e.Style = g.Style
		}
		if g.Match != "" {
			e.Match = g.Match
		}
		set := func(t Tri, dst *bool) {
			if t == 1 {
				*dst = true
			} else if t == 2 {
				*dst = false
			}
		}
		set(g.Case, &e.Case)
		set(g.Getter, &e.Getter)
		set(g.Stringer, &e.Stringer)
		set(g.Typecast, &e.Typecast)
	}
	apply(iface)
	apply(method)
	return e
}

// SortedKeys returns the keys of a map in order.
func SortedKeys[V any](m map[string]V) []string {
	ks := make([]string, 0, len(m))
	for k := range m {
		ks = append(ks, k)
	}
	sort.Strings(ks)
	return ks
}
