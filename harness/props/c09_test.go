package props

import (
	"encoding/json"
	"fmt"
	"strings"
	"testing"

	"pgregory.net/rapid"
	"verif/hx"
	"verif/pg"
)

// ---------------------------------------------------------------------------------------------
// C09 - notation scoping: interface defaults, method overrides, no leakage.
// Metamorphic relations on the printed function declaration (same tool, same configuration).
// ---------------------------------------------------------------------------------------------

// probe struct pair: every effective option is visible in the generated function
const c09Types = `package home

type PS struct {
	TC    int
	ST    LStatus
	gt_   string
	Cs    string
	Plain int
}

func (p PS) Gt() string { return p.gt_ }

type PD struct {
	TC    int64
	ST    string
	Gt    string
	CS    string
	Plain int
}
`

func c09Prog(iface, method pg.Toggles) *pg.Prog { return c09ProgOrder(iface, method, false) }

// c09ProgOrder: the probe method carries ":skip plain" (lower case; the field is Plain), whose effect
// depends on the effective case rule; togglesLast writes the toggles after the :skip line.
func c09ProgOrder(iface, method pg.Toggles, togglesLast bool) *pg.Prog {
	p := &pg.Prog{}
	p.Ifaces = []pg.Iface{{Name: "Convergen", Opts: iface, Methods: []pg.Method{{Name: "ConvertProbe", SrcType: "PS", DstType: "PD", SrcPtr: true, DstPtr: true, Opts: method,
		Notes: []pg.Notation{{Kind: "skip", Args: []string{"plain"}}}, TogglesLast: togglesLast}}}}
	p.ExtraFiles = hx.Files{{Name: "home/probe.go", Data: c09Types}}
	return p
}

func explicitToggles(e pg.Effective) pg.Toggles {
	onoff := func(b bool) pg.Tri {
		if b {
			return 1
		}
		return 2
	}
	return pg.Toggles{Style: e.Style, Match: e.Match, Case: onoff(e.Case), Getter: onoff(e.Getter), Stringer: onoff(e.Stringer), Typecast: onoff(e.Typecast)}
}

// declOf runs the tool and returns the declaration text of one function ("" + stderr when rejected).
func declOf(env *hx.Env, files hx.Files, key string) (string, string, bool) {
	o, err := pg.RunModule(env, files)
	if err != nil {
		return "", err.Error(), false
	}
	defer o.Cleanup()
	if o.Res.TimedOut {
		return "", "timeout", false
	}
	if o.Res.Exit != 0 || !o.HasOut {
		return "", "exit " + fmt.Sprint(o.Res.Exit) + ": " + tail(o.Res.Stderr, 500), true
	}
	fs, err := pg.InspectOutput(o.Out)
	if err != nil {
		return "", err.Error(), true
	}
	if f := fs[key]; f != nil {
		return f.Decl, "", true
	}
	return "", "function " + key + " missing\n" + o.Out, true
}

type c09Meta struct {
	Kind   string     `json:"kind"` // inherit | single-vs-multi
	Iface  pg.Toggles `json:"iface,omitempty"`
	Method pg.Toggles `json:"method,omitempty"`
	Prog   *pg.Prog   `json:"prog,omitempty"`
	Target string     `json:"target,omitempty"`
}

func togglesClass(i, m pg.Toggles) string {
	var parts []string
	add := func(name string, a, b bool) {
		switch {
		case a && b:
			parts = append(parts, name+":both")
		case a:
			parts = append(parts, name+":iface")
		case b:
			parts = append(parts, name+":method")
		}
	}
	add("style", i.Style != "", m.Style != "")
	add("match", i.Match != "", m.Match != "")
	add("case", i.Case != 0, m.Case != 0)
	add("getter", i.Getter != 0, m.Getter != 0)
	add("stringer", i.Stringer != 0, m.Stringer != 0)
	add("typecast", i.Typecast != 0, m.Typecast != 0)
	return strings.Join(parts, ",")
}

// c09Inherit checks R1+R2: (iface=I, method=M) must generate the same function as the canonical
// file that sets the effective value of every option at method level only.
func c09Inherit(env *hx.Env, i, m pg.Toggles, canon map[pg.Effective]string) hx.Verdict {
	eff := pg.EffectiveOpts(i, m)
	want, ok := canon[eff]
	if !ok {
		d, msg, _ := declOf(env, c09Prog(pg.Toggles{}, explicitToggles(eff)).Files(), ".ConvertProbe")
		if d == "" {
			return hx.Failf("C09|canonical-rejected", "canonical file for %+v rejected: %s", eff, msg)
		}
		canon[eff] = d
		want = d
	}
	// the order of the notation lines of a method does not matter: odd table entries write the toggles
	// after the :skip line
	togglesLast := (int(i.Case)+int(i.Getter)*3+int(m.Case)*9+int(m.Stringer)*27+int(m.Typecast))%2 == 1
	got, msg, judged := declOf(env, c09ProgOrder(i, m, togglesLast).Files(), ".ConvertProbe")
	if !judged {
		return hx.Verdict{OK: true, Inconclusive: true}
	}
	if got == "" {
		return hx.Failf("C09|R1R2|rejected", "interface %v / method %v rejected: %s", i.Lines(), m.Lines(), msg)
	}
	if got != want {
		// attribute to the first toggle whose presence matters
		cls := "override"
		if m == (pg.Toggles{}) {
			cls = "iface-default-not-applied"
		} else if i == (pg.Toggles{}) {
			cls = "method-level"
		}
		return hx.Failf("C09|R1R2:"+cls+"|function-text-differs", "interface notations %v + method notations %v (effective %+v) do not give the same function as the effective values written on the method\n--- got ---\n%s\n--- want ---\n%s", i.Lines(), m.Lines(), eff, got, want)
	}
	return hx.Pass
}

// singleMethodProg keeps only the target method (and the methods its :conv notations reference).
func singleMethodProg(p *pg.Prog, target string) *pg.Prog {
	b, _ := json.Marshal(p)
	var q pg.Prog
	_ = json.Unmarshal(b, &q)
	keep := map[string]bool{target: true}
	for _, m := range p.AllMethods() {
		if m.Name == target {
			for _, n := range m.Notes {
				if n.Kind == "conv" && len(n.Args) > 0 {
					keep[n.Args[0]] = true
				}
			}
		}
	}
	var ifs []pg.Iface
	for _, it := range q.Ifaces {
		var ms []pg.Method
		for _, m := range it.Methods {
			if keep[m.Name] {
				ms = append(ms, m)
			}
		}
		if len(ms) > 0 {
			it.Methods = ms
			ifs = append(ifs, it)
		}
	}
	// the first interface must stay recognisable as a converter
	for i := range ifs {
		if ifs[i].Name != "Convergen" {
			ifs[i].Marked = true
		}
	}
	q.Ifaces = ifs
	q.Imports = p.Imports // unused imports are harmless for the tool and keep qualifiers identical
	return &q
}

func c09SingleVsMulti(env *hx.Env, p *pg.Prog, target *pg.Method, multiDecl string) hx.Verdict {
	q := singleMethodProg(p, target.Name)
	got, msg, judged := declOf(env, q.Files(), funcKeyOf(target))
	if !judged {
		return hx.Verdict{OK: true, Inconclusive: true}
	}
	if got == "" {
		return hx.Failf("C09|R3|single-method-file-rejected", "method %s alone is rejected although the multi-method file is accepted: %s", target.Name, msg)
	}
	if got != multiDecl {
		return hx.Failf("C09|R3|function-text-differs", "method %s: the function generated inside the multi-method file differs from the one generated alone\n  notations: %s\n--- in the multi-method file ---\n%s\n--- alone ---\n%s", target.Name, strings.Join(target.NotationLines(), "; "), multiDecl, got)
	}
	return hx.Pass
}

func TestC09(t *testing.T) {
	env, rec := start(t, "C09", "exploration",
		"(R1+R2) complete table: all 3^4 x 3^4 assignments of {unset,on,off} to case/getter/stringer/typecast at interface level and at method level, plus all 3x3 x 3x3 assignments of :style and :match, on a probe struct pair whose generated function reveals every effective option; "+
			"each must print the same function as the canonical file that writes the effective value (interface default, method override) of every option on the method. "+
			"(R3) rapid-generated multi-method / multi-interface programs with per-method :skip/:map/:conv/:literal lists and hooks: each function must be identical to the one generated from a file that contains only that method (plus referenced converter methods). "+
			"Non-trivial: a combination with at least one interface-level notation, or a program with >= 2 methods whose notations differ; table entries are distinct by construction, programs by text.")
	defer rec.Done()
	needBin(t, env)
	rec.Assume("text equality of function declarations is the right comparison because both sides come from the same tool under the same configuration")

	canon := map[pg.Effective]string{}
	judgeCase := func(c *hx.Case) hx.Verdict {
		var m c09Meta
		if err := json.Unmarshal(c.Meta, &m); err != nil {
			return hx.Failf("harness|bad-meta", "%v", err)
		}
		switch m.Kind {
		case "inherit":
			return c09Inherit(env, m.Iface, m.Method, canon)
		case "single-vs-multi":
			var target *pg.Method
			for _, mm := range m.Prog.AllMethods() {
				if mm.Name == m.Target {
					target = mm
				}
			}
			if target == nil {
				return hx.Failf("harness|bad-meta", "no target")
			}
			multi, msg, _ := declOf(env, m.Prog.Files(), funcKeyOf(target))
			if multi == "" {
				return hx.Failf("C09|R3|multi-rejected", "%s", msg)
			}
			return c09SingleVsMulti(env, m.Prog, target, multi)
		}
		return hx.Failf("harness|bad-meta", "kind %q", m.Kind)
	}
	if env.Replay != "" {
		c, err := hx.LoadCase(env.Replay)
		if err != nil {
			t.Fatal(err)
		}
		rec.Eval()
		rec.Report(t, judgeCase(c), c)
		return
	}
	rec.ReplayTier(judgeCase)

	// R1+R2 tables
	t.Run("inheritance-tables", func(t *testing.T) {
		tris := []pg.Tri{0, 1, 2}
		idx := 0
		run := func(i, m pg.Toggles) {
			idx++
			if !mine(env, idx) {
				return
			}
			v := c09Inherit(env, i, m, canon)
			rec.Eval()
			if i != (pg.Toggles{}) {
				rec.NonTrivialDistinctN(1)
			}
			rec.Class("table:" + map[bool]string{true: "iface-level-notation", false: "method-level-only"}[i != (pg.Toggles{})])
			if idx%997 == 0 {
				rec.Sample(map[string]any{"interface_notations": i.Lines(), "method_notations": m.Lines(), "effective": pg.EffectiveOpts(i, m)})
			}
			mb, _ := json.Marshal(c09Meta{Kind: "inherit", Iface: i, Method: m})
			rec.Report(t, v, &hx.Case{Kind: "inherit", Meta: mb, Files: c09Prog(i, m).Files()})
		}
		stride := env.Pick(1, 1)
		n := 0
		for _, ic := range tris {
			for _, ig := range tris {
				for _, is := range tris {
					for _, it := range tris {
						for _, mc := range tris {
							for _, mg := range tris {
								for _, ms := range tris {
									for _, mt := range tris {
										n++
										if n%stride != 0 {
											continue
										}
										run(pg.Toggles{Case: ic, Getter: ig, Stringer: is, Typecast: it}, pg.Toggles{Case: mc, Getter: mg, Stringer: ms, Typecast: mt})
									}
								}
							}
						}
					}
				}
			}
		}
		styles := []string{"", "return", "arg"}
		matches := []string{"", "name", "none"}
		for _, is := range styles {
			for _, im := range matches {
				for _, ms := range styles {
					for _, mm := range matches {
						run(pg.Toggles{Style: is, Match: im, Typecast: 1}, pg.Toggles{Style: ms, Match: mm})
					}
				}
			}
		}
		rec.SetExhaustive(true)
	})

	// R3: single vs multi
	pf := fullProfile()
	pf.MaxIfaces, pf.MaxMethods = 3, 5
	rapidRun(t, env, "single-vs-multi", env.Pick(160, 5000), func(rt *rapid.T) {
		p := pg.GenProg(rt, pf)
		files := p.Files()
		o, err := pg.RunModule(env, files)
		if err != nil {
			rt.Fatalf("%v", err)
		}
		out, exit := o.Out, o.Res.Exit
		o.Cleanup()
		if exit != 0 {
			rec.Class("multi-method-file-rejected (judged by C03)")
			return
		}
		fs, err := pg.InspectOutput(out)
		if err != nil {
			return
		}
		ms := p.AllMethods()
		// judge up to three methods of the file
		perm := rapid.Permutation(ms).Draw(rt, "targets")
		differ := false
		for k, target := range perm {
			if k >= 3 {
				break
			}
			f := fs[funcKeyOf(target)]
			if f == nil {
				continue
			}
			v := c09SingleVsMulti(env, p, target, f.Decl)
			rec.Eval()
			rec.Class("R3:comparisons")
			mb, _ := json.Marshal(c09Meta{Kind: "single-vs-multi", Prog: p, Target: target.Name})
			rec.Report(rt, v, &hx.Case{Kind: "single-vs-multi", Meta: mb, Files: files})
		}
		for _, a := range ms {
			for _, b := range ms {
				if fmt.Sprint(a.Opts, a.Notes) != fmt.Sprint(b.Opts, b.Notes) {
					differ = true
				}
			}
		}
		if len(ms) >= 2 && differ {
			rec.NonTrivial(progSummary(p))
		}
		if len(p.Ifaces) > 1 {
			rec.Class("R3:multi-interface-file")
		}
		rec.Sample(progSummary(p))
	})
}
