package props

import (
	"encoding/json"
	"fmt"
	"strings"
	"testing"

	"pgregory.net/rapid"
	"verif/hx"
	"verif/pg"
)

// ---------------------------------------------------------------------------------------------
// C09 - notation scoping: interface defaults, method overrides, no leakage.
// Metamorphic relations on the printed function declaration (same tool, same configuration).
// ---------------------------------------------------------------------------------------------

// probe struct pair: every effective option is visible in the generated function
const c09Types = `package home

type PS struct {
	TC    int
	ST    LStatus
	gt_   string
	Cs    string
	Plain int
}

func (p PS) Gt() string { return p.gt_ }

type PD struct {
	TC    int64
	ST    string
	Gt    string
	CS    string
	Plain int
}
`

func c09Prog(iface, method pg.Toggles) *pg.Prog { return c09ProgOrder(iface, method, false) }

// c09ProgOrder: the probe method carries ":skip plain" (lower case; the field is Plain), whose effect
// depends on the effective case rule; togglesLast writes the toggles after the :skip line.
func c09ProgOrder(iface, method pg.Toggles, togglesLast bool) *pg.Prog {
	p := &pg.Prog{}
	p.Ifaces = []pg.Iface{{Name: "Convergen", Opts: iface, Methods: []pg.Method{{Name: "ConvertProbe", SrcType: "PS", DstType: "PD", SrcPtr: true, DstPtr: true, Opts: method,
		Notes: []pg.Notation{{Kind: "skip", Args: []string{"plain"}}}, TogglesLast: togglesLast}}}}
	p.ExtraFiles = hx.Files{{Name: "home/probe.go", Data: c09Types}}
	return p
}

func explicitToggles(e pg.Effective) pg.Toggles {
	onoff := func(b bool) pg.Tri {
		if b {
			return 1
		}
		return 2
	}
	return pg.Toggles{Style: e.Style, Match: e.Match, Case: onoff(e.Case), Getter: onoff(e.Getter), Stringer: onoff(e.Stringer), Typecast: onoff(e.Typecast)}
}

// declOf runs the tool and returns the declaration text of one function ("" + stderr when rejected).
func declOf(env *hx.Env, files hx.Files, key string) (string, string, bool) {
	o, err := pg.RunModule(env, files)
	if err != nil {
		return "", err.Error(), false
	}
	defer o.Cleanup()
	if o.Res.TimedOut {
		return "", "timeout", false
	}
	if o.Res.Exit != 0 || !o.HasOut {
		return "", "exit " + fmt.Sprint(o.Res.Exit) + ": " + tail(o.Res.Stderr, 500), true
	}
	fs, err := pg.InspectOutput(o.Out)
	if err != nil {
		return "", err.Error(), true
	}
	if f := fs[key]; f != nil {
		return f.Decl, "", true
	}
	return "", "function " + key + " missing\n" + o.Out, true
}

type c09Meta struct {
	Kind   string     `json:"kind"` // inherit | single-vs-multi
	Iface  pg.Toggles `json:"iface,omitempty"`
	Method pg.Toggles `json:"method,omitempty"`
	Prog   *pg.Prog   `json:"prog,omitempty"`
	Target string     `json:"target,omitempty"`
	// shared-types family: the method is addressed by position (method names repeat across interfaces)
	IfaceIdx  int `json:"iface_idx,omitempty"`
	MethodIdx int `json:"method_idx,omitempty"`
}

func togglesClass(i, m pg.Toggles) string {
	var parts []string
	add := func(name string, a, b bool) {
		switch {
		case a && b:
			parts = append(parts, name+":both")
		case a:
			parts = append(parts, name+":iface")
		case b:
			parts = append(parts, name+":method")
		}
	}
	add("style", i.Style != "", m.Style != "")
	add("match", i.Match != "", m.Match != "")
	add("case", i.Case != 0, m.Case != 0)
	add("getter", i.Getter != 0, m.Getter != 0)
	add("stringer", i.Stringer != 0, m.Stringer != 0)
	add("typecast", i.Typecast != 0, m.Typecast != 0)
	return strings.Join(parts, ",")
}

// c09Inherit checks R1+R2: (iface=I, method=M) must generate the same function as the canonical
// file that sets the effective value of every option at method level only.
func c09Inherit(env *hx.Env, i, m pg.Toggles, canon map[pg.Effective]string) hx.Verdict {
	eff := pg.EffectiveOpts(i, m)
	want, ok := canon[eff]
	if !ok {
		d, msg, _ := declOf(env, c09Prog(pg.Toggles{}, explicitToggles(eff)).Files(), ".ConvertProbe")
		if d == "" {
			return hx.Failf("C09|canonical-rejected", "canonical file for %+v rejected: %s", eff, msg)
		}
		canon[eff] = d
		want = d
	}
	// the order of the notation lines of a method does not matter: odd table entries write the toggles
	// after the :skip line
	togglesLast := (int(i.Case)+int(i.Getter)*3+int(m.Case)*9+int(m.Stringer)*27+int(m.Typecast))%2 == 1
	got, msg, judged := declOf(env, c09ProgOrder(i, m, togglesLast).Files(), ".ConvertProbe")
	if !judged {
		return hx.Verdict{OK: true, Inconclusive: true}
	}
	if got == "" {
		return hx.Failf("C09|R1R2|rejected", "interface %v / method %v rejected: %s", i.Lines(), m.Lines(), msg)
	}
	if got != want {
		// attribute to the first toggle whose presence matters
		cls := "override"
		if m == (pg.Toggles{}) {
			cls = "iface-default-not-applied"
		} else if i == (pg.Toggles{}) {
			cls = "method-level"
		}
		return hx.Failf("C09|R1R2:"+cls+"|function-text-differs", "interface notations %v + method notations %v (effective %+v) do not give the same function as the effective values written on the method\n--- got ---\n%s\n--- want ---\n%s", i.Lines(), m.Lines(), eff, got, want)
	}
	return hx.Pass
}

// singleMethodProg keeps only the target method (and the methods its :conv notations reference).
func singleMethodProg(p *pg.Prog, target string) *pg.Prog {
	b, _ := json.Marshal(p)
	var q pg.Prog
	_ = json.Unmarshal(b, &q)
	keep := map[string]bool{target: true}
	for _, m := range p.AllMethods() {
		if m.Name == target {
			for _, n := range m.Notes {
				if n.Kind == "conv" && len(n.Args) > 0 {
					keep[n.Args[0]] = true
				}
			}
		}
	}
	var ifs []pg.Iface
	for _, it := range q.Ifaces {
		var ms []pg.Method
		for _, m := range it.Methods {
			if keep[m.Name] {
				ms = append(ms, m)
			}
		}
		if len(ms) > 0 {
			it.Methods = ms
			ifs = append(ifs, it)
		}
	}
	// the first interface must stay recognisable as a converter
	for i := range ifs {
		if ifs[i].Name != "Convergen" {
			ifs[i].Marked = true
		}
	}
	q.Ifaces = ifs
	q.Imports = p.Imports // unused imports are harmless for the tool and keep qualifiers identical
	return &q
}

func c09SingleVsMulti(env *hx.Env, p *pg.Prog, target *pg.Method, multiDecl string) hx.Verdict {
	q := singleMethodProg(p, target.Name)
	got, msg, judged := declOf(env, q.Files(), funcKeyOf(target))
	if !judged {
		return hx.Verdict{OK: true, Inconclusive: true}
	}
	if got == "" {
		return hx.Failf("C09|R3|single-method-file-rejected", "method %s alone is rejected although the multi-method file is accepted: %s", target.Name, msg)
	}
	if got != multiDecl {
		return hx.Failf("C09|R3|function-text-differs", "method %s: the function generated inside the multi-method file differs from the one generated alone\n  notations: %s\n--- in the multi-method file ---\n%s\n--- alone ---\n%s", target.Name, strings.Join(target.NotationLines(), "; "), multiDecl, got)
	}
	return hx.Pass
}

func TestC09(t *testing.T) {
	env, rec := start(t, "C09", "exploration",
		"(R1+R2) complete table: all 3^4 x 3^4 assignments of {unset,on,off} to case/getter/stringer/typecast at interface level and at method level, plus all 3x3 x 3x3 assignments of :style and :match, on a probe struct pair whose generated function reveals every effective option; "+
			"each must print the same function as the canonical file that writes the effective value (interface default, method override) of every option on the method. "+
			"(R3) rapid-generated multi-method / multi-interface programs with per-method :skip/:map/:conv/:literal lists and hooks: each function must be identical to the one generated from a file that contains only that method (plus referenced converter methods); "+
			"the same relation over 2-6 methods that all share one struct pair (and its twin) so that every type pair, path and hook is common to them: own toggles per method and interface, nested-path notations, shared hooks (a tenth of them misfits), receiver methods of one name under different receivers, operands declared with the default names. "+
			"Non-trivial: a combination with at least one interface-level notation, or a program with >= 2 methods whose notations differ; table entries are distinct by construction, programs by text.")
	defer rec.Done()
	needBin(t, env)
	rec.Assume("text equality of function declarations is the right comparison because both sides come from the same tool under the same configuration")

	canon := map[pg.Effective]string{}
	judgeCase := func(c *hx.Case) hx.Verdict {
		var m c09Meta
		if err := json.Unmarshal(c.Meta, &m); err != nil {
			return hx.Failf("harness|bad-meta", "%v", err)
		}
		switch m.Kind {
		case "inherit":
			return c09Inherit(env, m.Iface, m.Method, canon)
		case "single-vs-multi":
			var target *pg.Method
			for _, mm := range m.Prog.AllMethods() {
				if mm.Name == m.Target {
					target = mm
				}
			}
			if target == nil {
				return hx.Failf("harness|bad-meta", "no target")
			}
			multi, msg, _ := declOf(env, m.Prog.Files(), funcKeyOf(target))
			if multi == "" {
				return hx.Failf("C09|R3|multi-rejected", "%s", msg)
			}
			return c09SingleVsMulti(env, m.Prog, target, multi)
		}
		if m.Kind == "shared-types" && m.Prog != nil && m.IfaceIdx < len(m.Prog.Ifaces) && m.MethodIdx < len(m.Prog.Ifaces[m.IfaceIdx].Methods) {
			target := &m.Prog.Ifaces[m.IfaceIdx].Methods[m.MethodIdx]
			multi, msg, judged := declOf(env, m.Prog.Files(), funcKeyOf(target))
			if !judged || multi == "" {
				_ = msg
				return hx.Pass // the file is rejected as a whole: nothing to compare
			}
			alone, msg2, judged2 := declOf(env, c09Only(m.Prog, m.IfaceIdx, m.MethodIdx).Files(), funcKeyOf(target))
			if !judged2 {
				return hx.Verdict{OK: true, Inconclusive: true}
			}
			if alone == "" {
				return hx.Failf("C09|shared-types|single-method-file-rejected", "method %s alone is rejected although the multi-method file is accepted: %s", target.Name, msg2)
			}
			if alone != multi {
				return hx.Failf("C09|shared-types|function-text-differs", "method %s: in company\n%s\n--- alone ---\n%s", target.Name, multi, alone)
			}
			return hx.Pass
		}
		return hx.Failf("harness|bad-meta", "kind %q", m.Kind)
	}
	if env.Replay != "" {
		c, err := hx.LoadCase(env.Replay)
		if err != nil {
			t.Fatal(err)
		}
		rec.Eval()
		rec.Report(t, judgeCase(c), c)
		return
	}
	rec.ReplayTier(judgeCase)

	// R1+R2 tables
	t.Run("inheritance-tables", func(t *testing.T) {
		tris := []pg.Tri{0, 1, 2}
		idx := 0
		run := func(i, m pg.Toggles) {
			idx++
			if !mine(env, idx) {
				return
			}
			v := c09Inherit(env, i, m, canon)
			rec.Eval()
			if i != (pg.Toggles{}) {
				rec.NonTrivialDistinctN(1)
			}
			rec.Class("table:" + map[bool]string{true: "iface-level-notation", false: "method-level-only"}[i != (pg.Toggles{})])
			if idx%997 == 0 {
				rec.Sample(map[string]any{"interface_notations": i.Lines(), "method_notations": m.Lines(), "effective": pg.EffectiveOpts(i, m)})
			}
			mb, _ := json.Marshal(c09Meta{Kind: "inherit", Iface: i, Method: m})
			rec.Report(t, v, &hx.Case{Kind: "inherit", Meta: mb, Files: c09Prog(i, m).Files()})
		}
		stride := env.Pick(1, 1)
		n := 0
		for _, ic := range tris {
			for _, ig := range tris {
				for _, is := range tris {
					for _, it := range tris {
						for _, mc := range tris {
							for _, mg := range tris {
								for _, ms := range tris {
									for _, mt := range tris {
										n++
										if n%stride != 0 {
											continue
										}
										run(pg.Toggles{Case: ic, Getter: ig, Stringer: is, Typecast: it}, pg.Toggles{Case: mc, Getter: mg, Stringer: ms, Typecast: mt})
									}
								}
							}
						}
					}
				}
			}
		}
		styles := []string{"", "return", "arg"}
		matches := []string{"", "name", "none"}
		for _, is := range styles {
			for _, im := range matches {
				for _, ms := range styles {
					for _, mm := range matches {
						run(pg.Toggles{Style: is, Match: im, Typecast: 1}, pg.Toggles{Style: ms, Match: mm})
						// the other interface-level toggles survive a method-level override of style / match rule
						run(pg.Toggles{Style: is, Match: im, Getter: 1, Stringer: 1}, pg.Toggles{Style: ms, Match: mm})
						run(pg.Toggles{Style: is, Match: im, Getter: 1, Case: 2}, pg.Toggles{Style: ms, Match: mm, Typecast: 1})
					}
				}
			}
		}
		rec.SetExhaustive(true)
	})

	// R3 over methods that share every type pair: whatever one method leaves behind in the run (a cached decision, a
	// shared option list, a name table) shows in a neighbour that differs from it in one notation
	rapidRun(t, env, "shared-types", env.Pick(400, 4000), func(rt *rapid.T) {
		p := genC09Shared(rt)
		files := p.Files()
		o, err := pg.RunModule(env, files)
		if err != nil {
			rt.Fatalf("%v", err)
		}
		out, exit := o.Out, o.Res.Exit
		o.Cleanup()
		rec.Class("shared-types:files")
		if exit != 0 {
			rec.Class("shared-types:file-rejected (a drawn misfit; nothing to compare)")
			return
		}
		fs, err := pg.InspectOutput(out)
		if err != nil {
			return
		}
		n := 0
		for ii := range p.Ifaces {
			for mi := range p.Ifaces[ii].Methods {
				target := &p.Ifaces[ii].Methods[mi]
				f := fs[funcKeyOf(target)]
				q := c09Only(p, ii, mi)
				got, msg, judged := declOf(env, q.Files(), funcKeyOf(target))
				if !judged {
					continue
				}
				rec.Eval()
				rec.Class("shared-types:comparisons")
				n++
				v := hx.Pass
				switch {
				case f == nil:
					v = hx.Failf("C09|shared-types|function-missing", "no function for %s in the multi-method file\n%s", funcKeyOf(target), out)
				case got == "":
					v = hx.Failf("C09|shared-types|single-method-file-rejected", "method %s alone is rejected although the file that holds it together with other methods is accepted: %s\n--- multi-method setup ---\n%s", target.Name, msg, p.RenderSetup())
				case got != f.Decl:
					v = hx.Failf("C09|shared-types|function-text-differs", "method %s (interface %s): the function generated in company differs from the one generated alone\n  notations: %s\n--- in company ---\n%s\n--- alone ---\n%s\n--- multi-method setup ---\n%s",
						target.Name, p.Ifaces[ii].Name, strings.Join(target.NotationLines(), "; "), f.Decl, got, p.RenderSetup())
				}
				mb, _ := json.Marshal(c09Meta{Kind: "shared-types", Prog: p, IfaceIdx: ii, MethodIdx: mi})
				rec.Report(rt, v, &hx.Case{Kind: "shared-types", Meta: mb, Files: files})
			}
		}
		if n >= 2 {
			rec.NonTrivial(p.RenderSetup())
		}
		if len(p.Ifaces) > 1 {
			rec.Class("shared-types:multi-interface-file")
		}
		rec.Sample(map[string]any{"shared_types_setup": p.RenderSetup()})
	})

	// R3: single vs multi
	pf := fullProfile()
	pf.MaxIfaces, pf.MaxMethods = 3, 5
	rapidRun(t, env, "single-vs-multi", env.Pick(160, 5000), func(rt *rapid.T) {
		p := pg.GenProg(rt, pf)
		files := p.Files()
		o, err := pg.RunModule(env, files)
		if err != nil {
			rt.Fatalf("%v", err)
		}
		out, exit := o.Out, o.Res.Exit
		o.Cleanup()
		if exit != 0 {
			rec.Class("multi-method-file-rejected (judged by C03)")
			return
		}
		fs, err := pg.InspectOutput(out)
		if err != nil {
			return
		}
		ms := p.AllMethods()
		// judge up to three methods of the file
		perm := rapid.Permutation(ms).Draw(rt, "targets")
		differ := false
		for k, target := range perm {
			if k >= 3 {
				break
			}
			f := fs[funcKeyOf(target)]
			if f == nil {
				continue
			}
			v := c09SingleVsMulti(env, p, target, f.Decl)
			rec.Eval()
			rec.Class("R3:comparisons")
			mb, _ := json.Marshal(c09Meta{Kind: "single-vs-multi", Prog: p, Target: target.Name})
			rec.Report(rt, v, &hx.Case{Kind: "single-vs-multi", Meta: mb, Files: files})
		}
		for _, a := range ms {
			for _, b := range ms {
				if fmt.Sprint(a.Opts, a.Notes) != fmt.Sprint(b.Opts, b.Notes) {
					differ = true
				}
			}
		}
		if len(ms) >= 2 && differ {
			rec.NonTrivial(progSummary(p))
		}
		if len(p.Ifaces) > 1 {
			rec.Class("R3:multi-interface-file")
		}
		rec.Sample(progSummary(p))
	})
}

// ---- R3 over methods that share every type pair ----

const c09SharedTypes = `package home

type PIn struct {
	A int
	B string
	V int
}

type PIn2 struct {
	A int
	B string
	V int
}

type PS struct {
	TC    int
	ST    LStatus
	gt_   string
	Cs    string
	Plain int
	Items []int
	Codes []LStatus
	In    PIn
	Same  PIn
}

func (p PS) Gt() string { return p.gt_ }

// PS2 has the fields of PS (a second receiver type for same-named methods).
type PS2 struct {
	TC    int
	ST    LStatus
	gt_   string
	Cs    string
	Plain int
	Items []int
	Codes []LStatus
	In    PIn
	Same  PIn
}

func (p PS2) Gt() string { return p.gt_ }

type PD struct {
	TC    int64
	ST    string
	Gt    string
	CS    string
	Plain int
	Items []LInt
	Codes []string
	In    PIn2
	Same  PIn
	Extra int
}

func probeConv(i int) int64            { return int64(i) + 1 }
func probeConvE(i int) (int64, error)  { return int64(i), nil }
func probePre(d *PD, s *PS)            {}
func probePreE(d *PD, s *PS) error     { return nil }
func probePre2(d *PD, s *PS2)          {}
func probePreX(d *PD, s *PS, n int)    {}
func probePostV(d PD, s PS)            {}
`

// genC09Shared draws 2-6 methods over the same struct pair (PS or its twin PS2 -> PD), spread over 1-3 interfaces with
// their own interface-level toggles, each method with its own toggles, notations and hooks; methods with a receiver
// share one name across interfaces. A tenth of the methods carries a hook that does not fit (the file must then be
// rejected; a run that accepts it is caught by the comparison with the method alone).
func genC09Shared(t *rapid.T) *pg.Prog {
	p := &pg.Prog{ExtraFiles: hx.Files{{Name: "home/probe.go", Data: c09SharedTypes}}}
	nif := rapid.IntRange(1, 3).Draw(t, "nifaces")
	names := []string{"Convergen", "Aconv", "Zconv"}
	if rapid.Bool().Draw(t, "ifaceOrder") {
		names = []string{"Convergen", "Zconv", "Aconv"}
	}
	methodNames := []string{"Alpha", "Bravo", "Charlie", "Delta", "Echo", "Foxtrot", "Golf", "Hotel", "India"}
	perm := rapid.Permutation(methodNames).Draw(t, "methodNames")
	k := 0
	recvUsed := map[string]bool{}
	notePool := [][]string{
		{"skip", "Same.V"}, {"skip", "Same.V"}, {"skip", "In.B"}, {"skip", "Plain"}, {"skip", "plain"}, {"skip", "/^S/"}, {"skip", "/^(?i)c/"}, {"skip", "/V$/"},
		{"map", "TC", "Plain"}, {"map", "Plain", "Extra"}, {"map", "In.A", "Same.V"}, {"map", "Gt()", "CS"},
		{"literal", "Extra", "7"}, {"literal", "Same.A", "5"}, {"literal", "In.V", "9"},
		{"conv", "probeConv", "TC"}, {"conv", "probeConv", "Plain", "TC"},
	}
	for ii := 0; ii < nif; ii++ {
		it := pg.Iface{Name: names[ii], Marked: names[ii] != "Convergen"}
		if rapid.IntRange(0, 1).Draw(t, "ifaceOpts") == 0 {
			it.Opts = pg.GenToggles(t, "iface")
			if rapid.IntRange(0, 3).Draw(t, "ifaceStyle") == 0 {
				it.Opts.Style = "arg"
			}
		}
		nm := rapid.IntRange(1, 3).Draw(t, "nmethods")
		for mi := 0; mi < nm && k < len(perm); mi++ {
			m := pg.Method{Name: perm[k], SrcType: "PS", DstType: "PD", SrcPtr: true, DstPtr: true}
			k++
			m.Opts = pg.GenToggles(t, "method")
			if rapid.IntRange(0, 3).Draw(t, "style") == 0 {
				m.Opts.Style = rapid.SampledFrom([]string{"arg", "return"}).Draw(t, "styleV")
			}
			m.TogglesLast = rapid.Bool().Draw(t, "togglesLast")
			m.RetErr = rapid.IntRange(0, 2).Draw(t, "retErr") == 0
			if rapid.IntRange(0, 3).Draw(t, "twin") == 0 {
				m.SrcType = "PS2"
			}
			if rapid.IntRange(0, 3).Draw(t, "extra") == 0 {
				m.Extras = []pg.Param{{Type: "int"}}
			}
			if rapid.IntRange(0, 4).Draw(t, "named") == 0 {
				// declares exactly the names the tool uses by default (they must not be "used up" for the neighbours)
				m.SrcName, m.DstName = "src", "dst"
				for i := range m.Extras {
					m.Extras[i].Name = fmt.Sprintf("arg%d", i)
				}
			}
			// one method per interface and receiver type may be a receiver method; they all share one name
			// (at most one per interface: a second ToPD in the same interface would be a duplicate method; and one per
			// receiver type in the file: the same method cannot be declared twice on one type)
			if !recvUsed["iface:"+names[ii]] && !recvUsed["type:"+m.SrcType] && rapid.IntRange(0, 2).Draw(t, "recv") == 0 {
				{
					recvUsed["iface:"+names[ii]] = true
					recvUsed["type:"+m.SrcType] = true
					m.Recv = rapid.SampledFrom([]string{"r", "src", "p"}).Draw(t, "recvName")
					if m.SrcName != "" {
						m.SrcName, m.DstName = "", ""
						for i := range m.Extras {
							m.Extras[i].Name = ""
						}
					}
					m.Name = "ToPD"
				}
			}
			nn := rapid.IntRange(0, 3).Draw(t, "nnotes")
			for i := 0; i < nn; i++ {
				n := rapid.SampledFrom(notePool).Draw(t, "note")
				m.Notes = append(m.Notes, pg.Notation{Kind: n[0], Args: n[1:]})
			}
			if m.RetErr && rapid.IntRange(0, 3).Draw(t, "convE") == 0 {
				m.Notes = append(m.Notes, pg.Notation{Kind: "conv", Args: []string{"probeConvE", "Plain", "TC"}})
			}
			// hooks: fitting ones mostly, a misfit now and then
			switch h := rapid.IntRange(0, 11).Draw(t, "hook"); {
			case h < 3:
				hook := "probePre"
				if m.SrcType == "PS2" {
					hook = "probePre2"
				}
				m.Notes = append(m.Notes, pg.Notation{Kind: rapid.SampledFrom([]string{"preprocess", "postprocess"}).Draw(t, "hookPos"), Args: []string{hook}})
			case h == 3 && m.SrcType == "PS":
				m.Notes = append(m.Notes, pg.Notation{Kind: "postprocess", Args: []string{"probePostV"}})
			case h == 4 && m.SrcType == "PS" && m.RetErr:
				m.Notes = append(m.Notes, pg.Notation{Kind: "preprocess", Args: []string{"probePreE"}})
			case h == 5 && m.SrcType == "PS" && len(m.Extras) == 1:
				m.Notes = append(m.Notes, pg.Notation{Kind: "preprocess", Args: []string{"probePreX"}})
			case h == 6 && m.SrcType == "PS":
				// possibly a misfit: an error hook on a method without error result, or a hook with an additional
				// parameter on a method without additional arguments
				m.Notes = append(m.Notes, pg.Notation{Kind: "preprocess", Args: []string{rapid.SampledFrom([]string{"probePreE", "probePreX"}).Draw(t, "maybeMisfit")}})
			}
			it.Methods = append(it.Methods, m)
		}
		if len(it.Methods) > 0 {
			p.Ifaces = append(p.Ifaces, it)
		}
	}
	return p
}

// c09Only keeps one method (by position) of the program.
func c09Only(p *pg.Prog, ii, mi int) *pg.Prog {
	b, _ := json.Marshal(p)
	var q pg.Prog
	_ = json.Unmarshal(b, &q)
	it := q.Ifaces[ii]
	it.Methods = []pg.Method{it.Methods[mi]}
	q.Ifaces = []pg.Iface{it}
	return &q
}
