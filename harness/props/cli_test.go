package props

import (
	"fmt"
	"os"
	"path"
	"path/filepath"
	"strings"
	"syscall"
	"time"

	"pgregory.net/rapid"
	"verif/hx"
	"verif/pg"
)

// Engine H: scratch trees, CLI runs with chosen flags / cwd / spelling, snapshots.

// cliScenario is one CLI invocation in a fresh copy of a module.
type cliScenario struct {
	Input    string `json:"input"`    // setup path relative to the module root (may not exist)
	Spelling string `json:"spelling"` // rel-root | abs | dot-rel | pkg-dir | gofile-only | gofile-and-arg | gofile-pkg-dir
	OutKind  string `json:"out_kind"` // "" (default) | same-dir | cwd | nested-dir | missing-dir | is-dir | abs | log-ext | is-input
	Dry      bool   `json:"dry"`
	Print    bool   `json:"print"`
	Log      bool   `json:"log"`
	Pre      string `json:"pre"` // absent | other | identical | stale-broken | longer
	// Stdout: "" captured; "full": stdout is /dev/full, every write to it fails (whatever the tool makes of that, a run
	// that ends in an error leaves the output path alone)
	Stdout string `json:"stdout,omitempty"`
}

func (s cliScenario) flags() string {
	var f []string
	if s.OutKind != "" {
		f = append(f, "-out:"+s.OutKind)
	}
	if s.Dry {
		f = append(f, "-dry")
	}
	if s.Print {
		f = append(f, "-print")
	}
	if s.Log {
		f = append(f, "-log")
	}
	if s.Stdout != "" {
		f = append(f, "stdout:"+s.Stdout)
	}
	return strings.Join(f, " ")
}

// cliRun is what happened.
type cliRun struct {
	Root     string // module root
	Cwd      string
	Args     []string
	Env      []string
	OutAbs   string // where the output is expected
	LogAbs   string
	Res      hx.Result
	Before   hx.Snapshot
	After    hx.Snapshot
	PreBytes *string // content at OutAbs before the run (nil = absent)
	// Elsewhere: a working directory outside the module, removed with the rest
	Elsewhere string
}

// insertGen implements the documented default: ".gen" before the extension of the path.
func insertGen(p string) string {
	ext := path.Ext(p)
	return p[:len(p)-len(ext)] + ".gen" + ext
}

func stripExt(p string) string {
	return p[:len(p)-len(path.Ext(p))]
}

// execScenario materialises the module, establishes the pre-state, runs the binary and snapshots.
// identical is the content a successful plain run writes (used by the "identical" pre-state).
func execScenario(env *hx.Env, files hx.Files, sc cliScenario, identical string) (*cliRun, error) {
	root := env.Scratch("cli")
	if err := hx.WriteTree(root, files); err != nil {
		return nil, err
	}
	r := &cliRun{Root: root}
	inputAbs := filepath.Join(root, filepath.FromSlash(sc.Input))
	pkgDir := filepath.Dir(inputAbs)
	var spelled string // the input as the tool sees it
	r.Cwd = root
	switch sc.Spelling {
	case "rel-root", "gofile-only", "gofile-and-arg":
		spelled = sc.Input
	case "abs":
		spelled = inputAbs
	case "dot-rel":
		spelled = "./" + sc.Input
	case "pkg-dir", "gofile-pkg-dir":
		r.Cwd = pkgDir
		spelled = filepath.Base(inputAbs)
	case "abs-outside", "gofile-abs-outside":
		// started from a directory outside the module, the setup file named by its absolute path
		r.Cwd = root + "-elsewhere"
		r.Elsewhere = r.Cwd
		_ = os.MkdirAll(r.Cwd, 0o755)
		spelled = inputAbs
	default:
		return nil, fmt.Errorf("bad spelling %q", sc.Spelling)
	}
	var outArg string
	switch sc.OutKind {
	case "":
	case "same-dir":
		outArg = filepath.Join(filepath.Dir(spelled), "other_name.go")
	case "abs":
		outArg = filepath.Join(pkgDir, "abs_out.go")
	case "cwd":
		outArg = "out_in_cwd.go" // a bare name: relative to the working directory, which need not be the setup file's
	case "nested-dir":
		_ = os.MkdirAll(filepath.Join(pkgDir, "sub", "deep"), 0o755)
		outArg = filepath.Join(filepath.Dir(spelled), "sub", "deep", "out.go")
	case "missing-dir":
		outArg = filepath.Join(filepath.Dir(spelled), "no", "such", "dir", "out.go")
	case "is-dir":
		_ = os.MkdirAll(filepath.Join(pkgDir, "adir.go"), 0o755)
		outArg = filepath.Join(filepath.Dir(spelled), "adir.go")
	case "odd-stem-g", "odd-stem-o", "odd-stem-dot", "no-ext", "long-ext":
		// output names whose stem ends in a character of ".go", without extension, with another extension: the log
		// is "<output minus its own extension>.log" whatever the extension is
		name := map[string]string{"odd-stem-g": "mapping.go", "odd-stem-o": "zz_pogo.go", "odd-stem-dot": "y..go", "no-ext": "out_noext", "long-ext": "conv.text"}[sc.OutKind]
		outArg = filepath.Join(filepath.Dir(spelled), name)
	case "log-ext":
		// an output whose extension is ".log": "<output minus extension>.log" is the output itself, so the log
		// has to go somewhere else (LogAbs stays empty: any other *.log file next to the output is accepted)
		outArg = filepath.Join(filepath.Dir(spelled), "other_name.log")
	case "is-input-alias":
		// the setup file named as the output through another spelling of its directory (a symbolic link next to it):
		// it is the setup file all the same and must never be modified
		_ = os.Symlink(pkgDir, filepath.Join(filepath.Dir(pkgDir), "alias-of-pkg"))
		outArg = filepath.Join(filepath.Dir(filepath.Dir(spelled)), "alias-of-pkg", filepath.Base(spelled))
		if !filepath.IsAbs(spelled) && filepath.Dir(spelled) == "." {
			outArg = filepath.Join("..", "alias-of-pkg", filepath.Base(spelled))
		}
	case "is-input-symlink", "is-input-hardlink":
		// the setup file named as the output through a symbolic link / a hard link that lives in another directory
		_ = os.MkdirAll(filepath.Join(root, "links"), 0o755)
		outArg = filepath.Join(root, "links", "other_name.go")
		if sc.OutKind == "is-input-symlink" {
			_ = os.Symlink(inputAbs, outArg)
		} else {
			_ = os.Link(inputAbs, outArg)
		}
	case "is-input":
		// the setup file itself named as the output: it must never be modified, so the run cannot succeed
		outArg = spelled
	default:
		return nil, fmt.Errorf("bad out kind %q", sc.OutKind)
	}
	outSpelled := outArg
	if outSpelled == "" {
		outSpelled = insertGen(spelled)
	}
	if filepath.IsAbs(outSpelled) {
		r.OutAbs = outSpelled
	} else {
		r.OutAbs = filepath.Join(r.Cwd, outSpelled)
	}
	logSpelled := stripExt(outSpelled) + ".log"
	if filepath.IsAbs(logSpelled) {
		r.LogAbs = logSpelled
	} else {
		r.LogAbs = filepath.Join(r.Cwd, logSpelled)
	}
	if r.LogAbs == r.OutAbs {
		r.LogAbs = ""
	}
	if sc.OutKind != "is-dir" && sc.OutKind != "missing-dir" && !strings.HasPrefix(sc.OutKind, "is-input") {
		switch sc.Pre {
		case "other":
			_ = os.WriteFile(r.OutAbs, []byte("package home\n\n// stale content of an earlier run\nvar staleMarker = 1\n"), 0o644)
		case "identical":
			_ = os.WriteFile(r.OutAbs, []byte(identical), 0o644)
		case "stale-broken":
			_ = os.WriteFile(r.OutAbs, []byte("package home\n\nfunc broken( {\n"), 0o644)
		case "longer":
			// the result of an earlier run on a longer setup file: the new content followed by more
			_ = os.WriteFile(r.OutAbs, []byte(identical+"\nfunc leftOverFromALongerEarlierResult() int { return 1 }\n"), 0o644)
		}
	}
	if b, err := os.ReadFile(r.OutAbs); err == nil {
		s := string(b)
		r.PreBytes = &s
	}
	if sc.OutKind != "" {
		r.Args = append(r.Args, "-out", outArg)
	}
	if sc.Dry {
		r.Args = append(r.Args, "-dry")
	}
	if sc.Print {
		r.Args = append(r.Args, "-print")
	}
	if sc.Log {
		r.Args = append(r.Args, "-log")
	}
	switch sc.Spelling {
	case "gofile-only", "gofile-pkg-dir", "gofile-abs-outside":
		r.Env = append(r.Env, "GOFILE="+spelled)
	case "gofile-and-arg":
		r.Env = append(r.Env, "GOFILE=does-not-exist-and-must-be-ignored.go")
		r.Args = append(r.Args, spelled)
	default:
		r.Args = append(r.Args, spelled)
	}
	r.Before = hx.Snap(root)
	ro := hx.RunOpts{Dir: r.Cwd, Args: r.Args, Env: r.Env, Timeout: 90 * time.Second}
	if sc.Stdout == "full" {
		ro.StdoutTo = "/dev/full"
	}
	r.Res = hx.Run(env.Bin, ro)
	r.After = hx.Snap(root)
	return r, nil
}

func (r *cliRun) cleanup() {
	_ = os.RemoveAll(r.Root)
	if r.Elsewhere != "" {
		_ = os.RemoveAll(r.Elsewhere)
	}
}

// otherLogs lists the *.log files the run created next to the output other than the output itself (used when the
// documented log path coincides with the output path and the log therefore has no documented name).
func (r *cliRun) otherLogs() []string {
	created, _, _ := r.Before.Diff(r.After)
	var out []string
	for _, p := range created {
		abs := filepath.Join(r.Root, filepath.FromSlash(p))
		if strings.HasSuffix(p, ".log") && abs != r.OutAbs && filepath.Dir(abs) == filepath.Dir(r.OutAbs) {
			out = append(out, p)
		}
	}
	return out
}

func (r *cliRun) rel(abs string) string {
	p, err := filepath.Rel(r.Root, abs)
	if err != nil {
		return abs
	}
	return filepath.ToSlash(p)
}

// rejectedVariants derives rejected inputs of every failure stage from an accepted program.
func rejectedVariants(p *pg.Prog) map[string]hx.Files {
	base := p.Files()
	setup, _ := base.Get(pg.SetupPath)
	out := map[string]hx.Files{}
	out["syntax-error"] = base.Set(pg.SetupPath, strings.Replace(setup, "package home", "package home\n\nfunc broken( {", 1))
	out["no-converter-interface"] = base.Set(pg.SetupPath, "//go:build convergen\n\npackage home\n\ntype NotAConverter interface {\n\tM(*LInner) *LInner2\n}\n")
	out["bad-notation"] = base.Set(pg.SetupPath, "//go:build convergen\n\npackage home\n\ntype Convergen interface {\n\t// :style bogus\n\tConvertWithBadNotation(*LInner) *LInner2\n}\n")
	out["unknown-converter"] = base.Set(pg.SetupPath, "//go:build convergen\n\npackage home\n\ntype Convergen interface {\n\t// :conv noSuchFunc A A\n\tConvertWithUnknownConverter(*LInner) *LInner2\n}\n")
	out["non-struct-operand"] = base.Set(pg.SetupPath, "//go:build convergen\n\npackage home\n\ntype Convergen interface {\n\tConvertNonStructOperand(int) *LInner2\n}\n")
	out["unformattable-literal"] = base.Set(pg.SetupPath, "//go:build convergen\n\npackage home\n\ntype Convergen interface {\n\t// :literal A )(\n\tConvertUnformattableLiteral(*LInner) *LInner2\n}\n")
	out["go-mod-needs-update"] = base.Set("go.mod", "module "+pg.ModulePath+"\n\ngo 1.19\n\nreplace example.com/shared => ./shared\n").
		Set("shared/go.mod", "module example.com/shared\n\ngo 1.19\n").Set("shared/s.go", "package shared\n\ntype T struct{ A int }\n").
		Set(pg.SetupPath, "//go:build convergen\n\npackage home\n\nimport \"example.com/shared\"\n\ntype Convergen interface {\n\tConvertShared(*shared.T) *LInner\n}\n")
	return out
}

// genSmallProg draws a modest accepted program for the CLI engines.
func genSmallProg(t *rapid.T) *pg.Prog {
	pf := fullProfile()
	pf.MaxPairs, pf.MaxMethods, pf.MaxFields = 2, 3, 5
	p := pg.GenProg(t, pf)
	// carried-over declarations with printf verbs and the % operator (the code is data, never a format string)
	// now and then a method whose generated code names a package that no file of the package imports (ext.Trail holds
	// slices of deep/audit.Stamp): the import has to be found from the module alone, wherever the command was started
	if rapid.IntRange(0, 2).Draw(t, "indirectImport") == 0 && len(p.Ifaces) > 0 {
		p.Ifaces[0].Methods = append(p.Ifaces[0].Methods, pg.Method{Name: "ConvertTrailIndirectImport", SrcType: "ext.Trail", DstType: "ext.Trail2", SrcPtr: true, DstPtr: true,
			Opts: pg.Toggles{Typecast: 1}})
		p.FixImports()
	}
	p.SetupFuncs += "// pctLit: 100% of the verbs %d %s %v must survive.\nconst pctLit = \"100% done %d %s %!\"\n\nfunc pctMod(a, b int) int { return a % b }\n"
	return p
}

// sameDevice reports whether two files live on the same file system.
func sameDevice(a, b os.FileInfo) bool {
	sa, ok1 := a.Sys().(*syscall.Stat_t)
	sb, ok2 := b.Sys().(*syscall.Stat_t)
	return ok1 && ok2 && sa.Dev == sb.Dev
}
