package props

import (
	"encoding/json"
	"fmt"
	"go/ast"
	"go/parser"
	"go/token"
	"sort"
	"strings"
	"testing"

	"pgregory.net/rapid"
	"verif/hx"
	"verif/pg"
)

// ---------------------------------------------------------------------------------------------
// C03 - well-formed setup files are accepted and every method gets its function.
// Oracle: exit status 0, output exists, multiset of (receiver type, function name) in the output ==
// multiset of converter-interface methods. Metamorphic companion: re-rendering the same program with a
// different incidental layout must not flip acceptance.
// ---------------------------------------------------------------------------------------------

type c03Meta struct {
	Want []string `json:"want"` // sorted "Recv.Name" / ".Name" keys, one per method
	// Pre lists functions (same key form) that the setup file itself declares and that are carried over.
	Pre []string `json:"pre,omitempty"`
	// ReverseHookMask-1 selects a combination of the reverse-with-hook enumeration (0: an ordinary case)
	ReverseHookMask int `json:"reverse_hook_mask,omitempty"`
}

func recvBase(e ast.Expr) string {
	switch x := e.(type) {
	case *ast.StarExpr:
		return recvBase(x.X)
	case *ast.Ident:
		return x.Name
	case *ast.SelectorExpr:
		return recvBase(x.X) + "." + x.Sel.Name
	}
	return "?"
}

// funcKeys lists "Recv.Name" for every function declaration of a Go source.
func funcKeys(src string) ([]string, error) {
	fset := token.NewFileSet()
	f, err := parser.ParseFile(fset, "out.go", src, parser.SkipObjectResolution)
	if err != nil {
		return nil, err
	}
	var keys []string
	for _, d := range f.Decls {
		fd, ok := d.(*ast.FuncDecl)
		if !ok {
			continue
		}
		r := ""
		if fd.Recv != nil && len(fd.Recv.List) == 1 {
			r = recvBase(fd.Recv.List[0].Type)
		}
		keys = append(keys, r+"."+fd.Name.Name)
	}
	sort.Strings(keys)
	return keys, nil
}

func wantKeys(p *pg.Prog) []string {
	var keys []string
	for _, m := range p.AllMethods() {
		r := ""
		if m.Recv != "" {
			r = m.SrcType
		}
		keys = append(keys, r+"."+m.Name)
	}
	sort.Strings(keys)
	return keys
}

func lastLine(s string) string {
	ls := strings.Split(strings.TrimSpace(s), "\n")
	// the rejecting message is the last line that is not a continuation of a multi-line error
	for i := len(ls) - 1; i >= 0; i-- {
		if strings.TrimSpace(ls[i]) != "" {
			if i > 0 && strings.HasPrefix(ls[i-1], "error on ") {
				return ls[i-1] + " " + ls[i]
			}
			return ls[i]
		}
	}
	return ""
}

func stripPos(msg string) string {
	// drop a leading "path:line:col: "
	if i := strings.Index(msg, ".go:"); i >= 0 {
		rest := msg[i+4:]
		if j := strings.Index(rest, ": "); j >= 0 {
			return rest[j+2:]
		}
	}
	return msg
}

func c03Judge(env *hx.Env, files hx.Files, meta c03Meta) (hx.Verdict, string) {
	o, err := pg.RunModule(env, files)
	if err != nil {
		return hx.Failf("harness|io", "%v", err), "harness-error"
	}
	defer o.Cleanup()
	if o.Res.TimedOut {
		return hx.Verdict{OK: true, Inconclusive: true}, "timeout"
	}
	if o.Res.Crashed() {
		return hx.Failf("C03|rejected|crash", "well-formed setup file crashes the tool:\n%s", tail(o.Res.Stderr, 1500)), "crash"
	}
	if o.Res.Exit != 0 {
		return hx.Failf("C03|rejected|"+pg.NormalizeCompilerMsg(stripPos(lastLine(o.Res.Stderr))),
			"well-formed setup file rejected (exit %d):\n%s", o.Res.Exit, tail(o.Res.Stderr, 1500)), "rejected"
	}
	if !o.HasOut {
		return hx.Failf("C03|no-output|exit0", "exit 0 but no output file"), "no-output"
	}
	got, err := funcKeys(o.Out)
	if err != nil {
		return hx.Failf("C03|output-unparsable", "%v\n%s", err, o.Out), "unparsable"
	}
	want := append(append([]string{}, meta.Want...), meta.Pre...)
	sort.Strings(want)
	if strings.Join(got, " ") != strings.Join(want, " ") {
		return hx.Failf("C03|functions-differ", "functions in output %v, methods %v\n%s", got, want, o.Out), "functions-differ"
	}
	return hx.Pass, "accepted"
}

func tail(s string, n int) string {
	if len(s) > n {
		return "…" + s[len(s)-n:]
	}
	return s
}

// relayout re-renders the same program with a different incidental layout (C03's metamorphic
// relation): comments added or removed, method names made longer or shorter, blank lines.
func relayout(t *rapid.T, p *pg.Prog) *pg.Prog {
	b, _ := json.Marshal(p)
	var q pg.Prog
	_ = json.Unmarshal(b, &q)
	for i := range q.Ifaces {
		it := &q.Ifaces[i]
		switch rapid.IntRange(0, 3).Draw(t, "idoc") {
		case 0:
			it.Doc = nil
		case 1:
			it.Doc = []string{"A doc comment.", "", "With several lines."}
		}
		it.GoGenerate = rapid.Bool().Draw(t, "gogen")
		for j := range it.Methods {
			m := &it.Methods[j]
			switch rapid.IntRange(0, 3).Draw(t, "mdoc") {
			case 0:
				m.Doc = nil
			case 1:
				m.Doc = []string{m.Name + " has a doc comment."}
			case 2:
				m.DocAfter = []string{"trailing doc line"}
			}
			if rapid.IntRange(0, 3).Draw(t, "trail") == 0 {
				m.Trailing = "trailing comment"
			}
		}
	}
	switch rapid.IntRange(0, 2).Draw(t, "pkgdoc") {
	case 0:
		q.PkgDoc = nil
	case 1:
		q.PkgDoc = []string{"Package home is documented."}
	}
	q.OldTag = rapid.Bool().Draw(t, "oldtag")
	q.GoGenerateAtPackage = rapid.IntRange(0, 3).Draw(t, "goGenAtPackage") == 0
	for _, m := range q.AllMethods() {
		m.TogglesLast = rapid.Bool().Draw(t, "togglesLast")
	}
	return &q
}

// c03ReverseHook: :reverse together with a hook. Which operand the hook sees first under :reverse is not
// documented (T19), so both orientations of the hook's two leading parameters are tried: a setup file of one of
// the two orientations is well-formed, must be accepted and its output must compile. The mask selects receiver,
// pointer-ness of the hook's parameters and of the method's parameter, pre/post and an error-returning hook.
func c03ReverseHook(env *hx.Env, mask int) (hx.Verdict, []string, hx.Files, int) {
	recv, firstPtr, secondPtr, post, hookErr, paramPtr := mask&1 != 0, mask&2 != 0, mask&4 != 0, mask&8 != 0, mask&16 != 0, mask&32 != 0
	star := func(b bool) string {
		if b {
			return "*"
		}
		return ""
	}
	kindName := map[bool]string{false: "preprocess", true: "postprocess"}[post]
	var accepted []string
	var lastErr string
	var shown hx.Files
	runs := 0
	for _, orient := range []string{"result-type-first", "parameter-type-first"} {
		t1, t2 := "RvRow", "RvOrder"
		if orient == "parameter-type-first" {
			t1, t2 = t2, t1
		}
		var sb strings.Builder
		sb.WriteString("//go:build convergen\n\npackage home\n\ntype Convergen interface {\n")
		if recv {
			sb.WriteString("\t// :recv o\n")
		}
		sb.WriteString("\t// :style arg\n\t// :reverse\n\t// :skip Loaded\n\t// :" + kindName + " rvHook\n")
		res := "*RvRow"
		if hookErr {
			res = "(*RvRow, error)"
		}
		fmt.Fprintf(&sb, "\tLoad(o %sRvOrder) %s\n}\n", star(paramPtr), res)
		hookRes, body := "", ""
		if hookErr {
			hookRes, body = " error", " return nil "
		}
		hook := fmt.Sprintf("package home\n\ntype RvOrder struct {\n\tID     int\n\tTitle  string\n\tLoaded bool\n}\n\ntype RvRow struct {\n\tID    int\n\tTitle string\n}\n\nfunc rvHook(a %s%s, b %s%s)%s {%s}\n",
			star(firstPtr), t1, star(secondPtr), t2, hookRes, body)
		files := (&pg.Prog{}).Files().Set(pg.SetupPath, sb.String()).Set("home/rv.go", hook)
		if shown == nil {
			shown = files
		}
		o, err := pg.RunModule(env, files)
		if err != nil {
			return hx.Failf("harness|io", "%v", err), nil, shown, runs
		}
		runs++
		if o.Res.TimedOut {
			o.Cleanup()
			return hx.Verdict{OK: true, Inconclusive: true}, nil, shown, runs
		}
		if o.Res.Crashed() {
			defer o.Cleanup()
			return hx.Failf("C03|rejected|crash", "setup file with :reverse and a hook crashes the tool:\n%s\n%s", sb.String(), tail(o.Res.Stderr, 1500)), nil, files, runs
		}
		if o.Res.Exit == 0 && o.HasOut {
			keys, _ := funcKeys(o.Out)
			if ok, _, raw := pg.Build(o.Dir); ok && len(keys) == 1 {
				accepted = append(accepted, orient)
			} else {
				lastErr += orient + ": accepted, functions " + fmt.Sprint(keys) + ", build: " + tail(raw, 600) + "\n"
			}
		} else {
			lastErr += orient + ": " + lastLine(o.Res.Stderr) + "\n"
		}
		o.Cleanup()
	}
	if len(accepted) == 0 {
		return hx.Failf("C03|rejected|reverse-with-hook", ":reverse with a :%s hook (receiver %v, hook parameters %v/%v by pointer, hook error %v): neither orientation of the hook's parameters gives an accepted setup file whose output compiles\n%s",
			kindName, recv, firstPtr, secondPtr, hookErr, lastErr), nil, shown, runs
	}
	return hx.Pass, accepted, shown, runs
}

func TestC03(t *testing.T) {
	env, rec := start(t, "C03", "exploration",
		"(a) rapid-generated well-formed programs (Engine P: all documented notations with existing functions of acceptable shape, all legal method shapes, 1-6 methods, 1-2 converter interfaces, imported/aliased/odd-layout packages), "+
			"each also re-rendered with a different incidental layout (doc comments on/off, trailing comments, go:generate, package doc, // +build line) - acceptance and the function multiset must not change; "+
			"(b) complete sweep of single-method interfaces whose body is 1..64 bytes long x {no comment, doc comment on the interface, comment before, comment after, package doc} x {one interface, two adjacent, two separated}. "+
			"Oracle: exit 0 and multiset of (receiver, name) of output functions == methods. Non-trivial: distinct (layout class, notation kinds, shape) tuple; sweep points are distinct by construction.")
	defer rec.Done()
	needBin(t, env)
	rec.Assume("T12/T13: parameter names colliding with dst/src/err/argN, variadics, generics, embedded or method-less converter interfaces are outside the documented conventions and not generated")

	judgeCase := func(c *hx.Case) hx.Verdict {
		var m c03Meta
		if err := json.Unmarshal(c.Meta, &m); err != nil {
			return hx.Failf("harness|bad-meta", "%v", err)
		}
		if m.ReverseHookMask > 0 {
			v, _, _, _ := c03ReverseHook(env, m.ReverseHookMask-1)
			return v
		}
		v, _ := c03Judge(env, c.Files, m)
		return v
	}
	if env.Replay != "" {
		c, err := hx.LoadCase(env.Replay)
		if err != nil {
			t.Fatal(err)
		}
		rec.Eval()
		rec.Report(t, judgeCase(c), c)
		return
	}
	rec.ReplayTier(judgeCase)

	mkCase := func(files hx.Files, meta c03Meta, kind string) *hx.Case {
		b, _ := json.Marshal(meta)
		return &hx.Case{Kind: kind, Meta: b, Files: files}
	}

	// (b) byte-length sweep (the marker mechanism is position arithmetic, so the sweep is by bytes)
	t.Run("body-length-sweep", func(t *testing.T) {
		idx := 0
		maxLen := env.Pick(40, 64)
		for _, variant := range []string{"bare", "iface-doc", "comment-before", "comment-after", "pkg-doc", "method-doc"} {
			for _, arrangement := range []string{"one", "two-adjacent", "two-separated"} {
				for n := 1; n <= maxLen; n++ {
					idx++
					if !mine(env, idx) {
						continue
					}
					// body = "\n\t" + name + "(A) B\n": the name length controls the byte distance between the braces
					// (n=1 gives 9 bytes)
					name := "F" + strings.Repeat("x", n-1)
					var sb strings.Builder
					sb.WriteString("//go:build convergen\n\n")
					if variant == "pkg-doc" {
						sb.WriteString("// Package home has a doc comment.\n")
					}
					sb.WriteString("package home\n\n")
					if variant == "comment-before" {
						sb.WriteString("// a free-floating comment\n\n")
					}
					if variant == "iface-doc" {
						sb.WriteString("// Convergen is documented.\n")
					}
					sb.WriteString("type Convergen interface {\n")
					if variant == "method-doc" {
						sb.WriteString("\t// doc\n")
					}
					sb.WriteString("\t" + name + "(A) B\n}\n")
					want := []string{"." + name}
					if arrangement != "one" {
						if arrangement == "two-separated" {
							sb.WriteString("\nvar between = 1\n\nfunc helper() int { return between }\n")
						}
						sb.WriteString("\n// :convergen\ntype Second interface {\n\tG" + strings.Repeat("y", n-1) + "(A) B\n}\n")
						want = append(want, ".G"+strings.Repeat("y", n-1))
					}
					if variant == "comment-after" {
						sb.WriteString("\n// a trailing free-floating comment\n")
					}
					meta := c03Meta{Want: want}
					if arrangement == "two-separated" {
						meta.Pre = []string{".helper"}
					}
					sort.Strings(meta.Want)
					files := (&pg.Prog{}).Files().Set(pg.SetupPath, sb.String()).Set("home/ab.go", "package home\n\ntype A struct{ X int }\n\ntype B struct{ X int }\n")
					v, class := c03Judge(env, files, meta)
					rec.Eval()
					rec.NonTrivialDistinctN(1)
					rec.Class("sweep:" + class)
					if 8+n < 21 {
						rec.Class("sweep:body<21-bytes")
					}
					if idx%97 == 0 {
						rec.Sample(map[string]any{"sweep": variant + "/" + arrangement, "name_len": n, "setup": sb.String()})
					}
					rec.Report(t, v, mkCase(files, meta, "sweep-"+variant+"-"+arrangement))
				}
			}
		}
		rec.SetExhaustive(true)
	})

	// (c) :reverse together with a hook (see c03ReverseHook)
	t.Run("reverse-with-hook", func(t *testing.T) {
		for mask := 0; mask < 1<<6; mask++ {
			if !mine(env, mask) {
				continue
			}
			v, accepted, files, runs := c03ReverseHook(env, mask)
			rec.EvalN(runs)
			rec.NonTrivialDistinctN(1)
			rec.Class("reverse-with-hook:accepted=" + strings.Join(accepted, "+"))
			if mask%13 == 0 {
				rec.Sample(map[string]any{"reverse_with_hook_mask": mask, "accepted_orientations": accepted})
			}
			rec.Report(t, v, mkCase(files, c03Meta{Want: []string{"Load"}, ReverseHookMask: mask + 1}, "reverse-with-hook"))
		}
	})

	// (a) generated programs + re-layout
	pf := fullProfile()
	applyOpenFindingExclusions(&pf, rec)
	rapidRun(t, env, "programs", env.Pick(1200, 30000), func(rt *rapid.T) {
		p := pg.GenProg(rt, pf)
		files := p.Files()
		w := pg.NewWorld(files, true)
		if w.Pkg("home") == nil || len(w.Errors) > 0 {
			rec.Class("generator-invalid")
			return
		}
		rec.Eval()
		classifyProg(rec, p)
		meta := c03Meta{Want: wantKeys(p)}
		// functions the setup file declares itself are carried over
		if setup, ok := files.Get(pg.SetupPath); ok {
			meta.Pre, _ = funcKeys(setup)
		}
		v, class := c03Judge(env, files, meta)
		rec.Class("outcome:" + class)
		var kinds []string
		for _, m := range p.AllMethods() {
			for _, n := range m.Notes {
				kinds = append(kinds, n.Kind)
			}
			kinds = append(kinds, fmt.Sprint(m.Opts, m.Recv != "", m.Reverse, m.RetErr, len(m.Extras)))
		}
		rec.NonTrivial(fmt.Sprint(len(p.Ifaces), kinds))
		rec.Sample(progSummary(p))
		if !rec.Report(rt, v, mkCase(files, meta, "program")) {
			return
		}
		// metamorphic: a different incidental layout of the same program
		q := relayout(rt, p)
		files2 := q.Files()
		v2, class2 := c03Judge(env, files2, meta)
		rec.Eval()
		rec.Class("relayout:" + class2)
		rec.Report(rt, v2, mkCase(files2, meta, "relayout"))
	})
}
