package props

import (
	"encoding/json"
	"fmt"
	"go/ast"
	"go/types"
	"strings"
	"testing"

	"verif/hx"
	"verif/pg"
)

// ---------------------------------------------------------------------------------------------
// C08 - function signatures follow the documented style/recv/reverse/error shapes.
// Complete enumeration; the expected signature is computed from the README rules and compared with
// types.Identical plus parameter/result/receiver names.
// ---------------------------------------------------------------------------------------------

type c08Shape struct {
	Style    string `json:"style"` // return | arg
	Recv     bool   `json:"recv"`
	Reverse  bool   `json:"reverse"`
	SrcPtr   bool   `json:"src_ptr"`
	DstPtr   bool   `json:"dst_ptr"`
	RetErr   bool   `json:"ret_err"`
	Extras   int    `json:"extras"`
	Named    bool   `json:"named"`
	SrcExt   bool   `json:"src_ext"`
	DstExt   bool   `json:"dst_ext"`
	Alias    bool   `json:"alias,omitempty"`
	ExtraSet int    `json:"extra_set,omitempty"` // 1: additional arguments of unnamed composite types that mention named types
	StyleAt  string `json:"style_at,omitempty"`  // "iface": the style notation sits on the interface
	Name     string `json:"name"`
	ExpParam string `json:"exp_params,omitempty"`
}

var c08ExtraTypes = []string{"int", "*LInner", "ext.MyInt"}

// c08CompositeExtraTypes: the type of an additional argument is printed as a whole, so named types inside
// slices, maps and function types must keep (or, for the home package, lose) their qualifier.
// c08PointerExtraTypes: every level of indirection of an additional argument is part of its type.
var c08PointerExtraTypes = []string{"**LInner", "***int", "*[]*ext.Inner"}

var c08CompositeExtraTypes = []string{"[]ext.MyInt", "map[LStr][]*LInner", "func(LInt, *ext.Inner) (ext.MyInt, error)"}

func (s c08Shape) legal() bool {
	if s.Reverse && (s.Style != "arg" || s.Extras > 0) {
		return false
	}
	if s.Recv && s.SrcExt {
		return false
	}
	return true
}

func (s c08Shape) method() pg.Method {
	m := pg.Method{Name: s.Name, SrcType: "LInner", DstType: "LInner2", SrcPtr: s.SrcPtr, DstPtr: s.DstPtr, RetErr: s.RetErr, Reverse: s.Reverse}
	if s.SrcExt {
		m.SrcType = "ext.Inner"
		if s.Alias {
			m.SrcType = "am.T" // imported under an alias that differs from the package name (model)
		}
	}
	if s.DstExt {
		m.DstType = "ext.Inner2"
		if s.Alias {
			m.DstType = "bm.T"
		}
	}
	if s.Style == "arg" {
		m.Opts.Style = "arg"
	}
	if s.Recv {
		m.Recv = "rcv"
	}
	for i := 0; i < s.Extras; i++ {
		p := pg.Param{Type: c08ExtraTypes[i]}
		if s.ExtraSet == 1 {
			p.Type = c08CompositeExtraTypes[i]
		}
		if s.ExtraSet == 2 {
			p.Type = c08PointerExtraTypes[i]
		}
		if s.ExtraSet == 3 && i == s.Extras-1 {
			p.Type = "...int" // a variadic last parameter stays variadic: callers write f(src, 1, 2)
		}
		if s.Named {
			p.Name = fmt.Sprintf("x%d", i)
		}
		m.Extras = append(m.Extras, p)
	}
	if s.Named {
		m.SrcName = "in"
		m.DstName = "out"
	}
	return m
}

// expected renders the documented signature: receiver text ("" if none), the parameter list
// alternatives and the result list. Names are part of the text and compared separately.
func (s c08Shape) expected() (recv string, params []string, results string) {
	m := s.method()
	st, dt := m.SrcType, m.DstType
	if m.SrcPtr {
		st = "*" + st
	}
	srcName, dstName := "src", "dst"
	if s.Reverse {
		srcName, dstName = "dst", "src" // the declared source operand is the one written to
	}
	if s.Named {
		srcName, dstName = "in", "out"
	}
	var ps []string
	if s.Recv {
		recv = "rcv " + st
	} else {
		ps = append(ps, srcName+" "+st)
	}
	var extras []string
	for i, e := range m.Extras {
		n := fmt.Sprintf("arg%d", i)
		if s.Named {
			n = e.Name
		}
		extras = append(extras, n+" "+e.Type)
	}
	if s.Style == "arg" {
		dparam := dstName + " *" + dt
		alt1 := append(append([]string{dparam}, ps...), extras...)
		params = append(params, strings.Join(alt1, ", "))
		if s.Reverse && !s.Recv {
			// T8: the order of the two operands of a receiver-less reversed function is undocumented
			alt2 := append(append(append([]string{}, ps...), dparam), extras...)
			params = append(params, strings.Join(alt2, ", "))
		}
		if s.RetErr {
			results = "(err error)"
		}
	} else {
		params = append(params, strings.Join(append(ps, extras...), ", "))
		rt := dt
		if m.DstPtr {
			rt = "*" + dt
		}
		if s.RetErr {
			results = fmt.Sprintf("(%s %s, err error)", dstName, rt)
		} else {
			results = fmt.Sprintf("(%s %s)", dstName, rt)
		}
	}
	return
}

func c08Setup(shapes []c08Shape) *pg.Prog {
	p := &pg.Prog{}
	it := pg.Iface{Name: "Convergen"}
	// every other arg-style shape lives in a second converter interface that sorts BEFORE Convergen and sets
	// ":style arg" at interface level (the method itself carries no style notation): the documented shape is
	// the same, and the interface-level notation must not reach the methods of Convergen
	alpha := pg.Iface{Name: "Alpha", Marked: true, Opts: pg.Toggles{Style: "arg"}}
	for i, s := range shapes {
		m := s.method()
		if s.Style == "arg" && i%2 == 0 && len(shapes) > 1 {
			m.Opts.Style = ""
			alpha.Methods = append(alpha.Methods, m)
			continue
		}
		it.Methods = append(it.Methods, m)
	}
	if len(shapes) > 1 {
		// a neighbour (in the interface that is generated first) that declares its operands with exactly the names the
		// tool uses by default, and one whose receiver is called src: the defaults of the other methods stay what they are
		first := &it
		if len(alpha.Methods) > 0 {
			first = &alpha
		}
		first.Methods = append(first.Methods,
			pg.Method{Name: "AaaDeclaresTheDefaultNames", SrcType: "LInner", DstType: "LInner2", SrcPtr: true, DstPtr: true, SrcName: "src", DstName: "dst", Extras: []pg.Param{{Name: "arg0", Type: "int"}}},
			pg.Method{Name: "AabReceiverCalledSrc", SrcType: "LInner2", DstType: "LInner", SrcPtr: true, DstPtr: true, Recv: "src"},
			// blank names next to declared ones that look like the default names: whatever the blank parameters are called in
			// the generated function, the parameter list has to be legal Go
			pg.Method{Name: "AacBlankNamesNextToDefaultLookingOnes", SrcType: "LInner", DstType: "LInner2", SrcPtr: true, DstPtr: true, SrcName: "_", Extras: []pg.Param{{Name: "arg1", Type: "int"}, {Name: "_", Type: "string"}, {Name: "src", Type: "bool"}}})
	}
	if len(shapes) == 1 && !shapes[0].legal() {
		// an illegal shape is not alone: a legal method that sorts after it must not make the run succeed
		it.Methods = append(it.Methods, pg.Method{Name: "ZzzLegalNeighbour", SrcType: "LInner", DstType: "LInner2", SrcPtr: true, DstPtr: true})
	}
	p.Ifaces = []pg.Iface{it}
	if len(alpha.Methods) > 0 {
		if len(it.Methods) == 0 {
			p.Ifaces = nil
		}
		p.Ifaces = append([]pg.Iface{alpha}, p.Ifaces...)
	}
	p.FixImports()
	// the extras mention ext and LInner; make sure ext is imported by name when it is used at all
	return p
}

type c08Meta struct {
	Shapes []c08Shape `json:"shapes"`
	Legal  bool       `json:"legal"`
}

func sigNames(t *types.Tuple) []string {
	var out []string
	for i := 0; i < t.Len(); i++ {
		out = append(out, t.At(i).Name())
	}
	return out
}

// c08JudgeLegal runs a batch of legal shapes and compares every function with its expectation.
func c08JudgeLegal(env *hx.Env, shapes []c08Shape) (hx.Verdict, int) {
	p := c08Setup(shapes)
	files := p.Files()
	o, err := pg.RunModule(env, files)
	if err != nil {
		return hx.Failf("harness|io", "%v", err), -1
	}
	defer o.Cleanup()
	if o.Res.TimedOut {
		return hx.Verdict{OK: true, Inconclusive: true}, -1
	}
	if o.Res.Exit != 0 || !o.HasOut {
		return hx.Failf("C08|legal-shape-rejected", "batch of %d legal shapes rejected (exit %d): %s", len(shapes), o.Res.Exit, tail(o.Res.Stderr, 600)), -1
	}
	// expectation file: one func-typed variable per alternative
	var body strings.Builder
	for _, s := range shapes {
		_, params, results := s.expected()
		for k, ps := range params {
			fmt.Fprintf(&body, "var exp%d_%s func(%s) %s\n", k, s.Name, ps, results)
		}
	}
	var exp strings.Builder
	exp.WriteString("package home\n\n")
	for _, k := range pg.KnownPkgs {
		if strings.Contains(body.String(), k.Qual+".") {
			if k.Alias != "" {
				fmt.Fprintf(&exp, "import %s %q\n", k.Alias, k.Path)
			} else {
				fmt.Fprintf(&exp, "import %q\n", k.Path)
			}
		}
	}
	exp.WriteString("\n" + body.String())
	all := files.Set(pg.OutPath, o.Out).Set("home/zz_expect.go", exp.String())
	w := pg.NewWorld(all, false)
	home := w.Pkg("home")
	if home == nil || len(w.Errors) > 0 {
		return hx.Failf("C08|output-does-not-type-check", "%s\n%s", w.ErrText(), o.Out), -1
	}
	// count declarations per (recv, name)
	counts := map[string]int{}
	for _, f := range w.Syntax[pg.ModulePath+"/home"] {
		if !strings.HasSuffix(w.Fset.Position(f.Pos()).Filename, "setup.gen.go") {
			continue
		}
		for _, d := range f.Decls {
			if fd, ok := d.(*ast.FuncDecl); ok {
				counts[fd.Name.Name]++
			}
		}
	}
	for i, s := range shapes {
		cls := fmt.Sprintf("sig:%s,recv=%v,rev=%v,err=%v,extras=%d,named=%v", s.Style, s.Recv, s.Reverse, s.RetErr, s.Extras, s.Named)
		if counts[s.Name] != 1 {
			return hx.Failf("C08|function-count|"+cls, "method %s: %d functions of that name in the output\n%s", s.Name, counts[s.Name], o.Out), i
		}
		var obj types.Object
		recvTxt, _, _ := s.expected()
		if s.Recv {
			named := w.Named("home", "LInner")
			obj, _, _ = types.LookupFieldOrMethod(types.NewPointer(named), true, home, s.Name)
		} else {
			obj = home.Scope().Lookup(s.Name)
		}
		fn, _ := obj.(*types.Func)
		if fn == nil {
			return hx.Failf("C08|function-missing|"+cls, "method %s: no such function (receiver %q) in the output\n%s", s.Name, recvTxt, o.Out), i
		}
		sig := fn.Type().(*types.Signature)
		matched := false
		var wantTxt []string
		for k := 0; ; k++ {
			e := home.Scope().Lookup(fmt.Sprintf("exp%d_%s", k, s.Name))
			if e == nil {
				break
			}
			es := e.Type().(*types.Signature)
			wantTxt = append(wantTxt, types.TypeString(es, types.RelativeTo(home)))
			if types.Identical(types.NewSignatureType(nil, nil, nil, sig.Params(), sig.Results(), sig.Variadic()), es) &&
				fmt.Sprint(sigNames(sig.Params())) == fmt.Sprint(sigNames(es.Params())) &&
				fmt.Sprint(sigNames(sig.Results())) == fmt.Sprint(sigNames(es.Results())) {
				matched = true
			}
		}
		if !matched {
			return hx.Failf("C08|signature-differs|"+cls, "method %s\n  setup:    %s\n  got:      %s\n  expected: %s", s.Name,
				strings.Join(s.method().NotationLines(), "; ")+" "+s.method().MethodLine(), types.TypeString(sig, types.RelativeTo(home)), strings.Join(wantTxt, "  or  ")), i
		}
		if s.Recv {
			r := sig.Recv()
			wantPtr := s.SrcPtr
			_, isPtr := r.Type().(*types.Pointer)
			if r.Name() != "rcv" || isPtr != wantPtr {
				return hx.Failf("C08|receiver-differs|"+cls, "method %s: receiver %s %s, expected %s", s.Name, r.Name(), types.TypeString(r.Type(), types.RelativeTo(home)), recvTxt), i
			}
		}
	}
	return hx.Pass, -1
}

func c08JudgeIllegal(env *hx.Env, s c08Shape) hx.Verdict {
	p := c08Setup([]c08Shape{s})
	o, err := pg.RunModule(env, p.Files())
	if err != nil {
		return hx.Failf("harness|io", "%v", err)
	}
	defer o.Cleanup()
	if o.Res.TimedOut {
		return hx.Verdict{OK: true, Inconclusive: true}
	}
	if o.Res.Exit == 0 {
		why := "receiver of an imported type"
		if s.Reverse && s.Style != "arg" {
			why = ":reverse without :style arg"
		} else if s.Reverse && s.Extras > 0 {
			why = ":reverse with additional arguments"
		}
		return hx.Failf("C08|illegal-shape-accepted|"+why, "%s accepted (exit 0): %s %s\n%s", why, strings.Join(s.method().NotationLines(), "; "), s.method().MethodLine(), o.Out)
	}
	if o.Res.Crashed() {
		return hx.Failf("C08|illegal-shape-crashes", "%s", tail(o.Res.Stderr, 800))
	}
	return hx.Pass
}

func c08All() []c08Shape {
	var all []c08Shape
	n := 0
	for mask := 0; mask < 1<<9; mask++ {
		for ex := 0; ex <= 3; ex++ {
			s := c08Shape{Style: "return", Recv: mask&2 != 0, Reverse: mask&4 != 0, SrcPtr: mask&8 != 0, DstPtr: mask&16 != 0,
				RetErr: mask&32 != 0, Extras: ex, Named: mask&64 != 0, SrcExt: mask&128 != 0, DstExt: mask&256 != 0}
			if mask&1 != 0 {
				s.Style = "arg"
			}
			s.Name = fmt.Sprintf("Convert%04d", n)
			n++
			all = append(all, s)
			if s.SrcExt || s.DstExt {
				s.Alias = true
				s.Name = fmt.Sprintf("Convert%04d", n)
				n++
				all = append(all, s)
				s.Alias = false
			}
			if ex > 0 && !s.Reverse {
				for set := 1; set <= 3; set++ {
					s.ExtraSet = set
					s.Name = fmt.Sprintf("Convert%04d", n)
					n++
					all = append(all, s)
				}
			}
		}
	}
	return all
}

func TestC08(t *testing.T) {
	env, rec := start(t, "C08", "exploration",
		"complete enumeration of style{return,arg} x receiver{none,named} x reverse x source{pointer,value} x destination{pointer,value} x error result x 0..3 additional arguments (int, *LInner, ext.MyInt; and again with the unnamed composite types []ext.MyInt, map[LStr][]*LInner, func(LInt, *ext.Inner) (ext.MyInt, error), and with **LInner, ***int, *[]*ext.Inner) x named/unnamed parameters x local/imported source x local/imported destination (2^9 x 4 = 2048 combinations, plus the 1536 with an imported operand again with the operand types imported under an alias that differs from the package name). "+
			"Legal combinations are generated in batches of 32 methods and each function's go/types signature must be identical, names included, to the one computed from the README rules; documented-illegal combinations ( :reverse without :style arg or with additional arguments, imported receiver) get a setup file each and must be rejected. "+
			"Non-trivial: every combination other than the default shape; combinations are distinct by construction.")
	defer rec.Done()
	needBin(t, env)
	rec.Assume("T8: operand order of a receiver-less reversed function is not documented; both orders are accepted")

	judgeCase := func(c *hx.Case) hx.Verdict {
		var m c08Meta
		if err := json.Unmarshal(c.Meta, &m); err != nil {
			return hx.Failf("harness|bad-meta", "%v", err)
		}
		if m.Legal {
			v, _ := c08JudgeLegal(env, m.Shapes)
			return v
		}
		return c08JudgeIllegal(env, m.Shapes[0])
	}
	if env.Replay != "" {
		c, err := hx.LoadCase(env.Replay)
		if err != nil {
			t.Fatal(err)
		}
		rec.Eval()
		rec.Report(t, judgeCase(c), c)
		return
	}
	rec.ReplayTier(judgeCase)

	mk := func(shapes []c08Shape, legal bool) *hx.Case {
		b, _ := json.Marshal(c08Meta{Shapes: shapes, Legal: legal})
		return &hx.Case{Kind: map[bool]string{true: "legal", false: "illegal"}[legal], Meta: b, Files: hx.Files{{Name: "home/setup.go", Data: c08Setup(shapes).RenderSetup()}}}
	}
	all := c08All()
	var legal, illegal []c08Shape
	for _, s := range all {
		if s.legal() {
			legal = append(legal, s)
		} else {
			illegal = append(illegal, s)
		}
	}
	rec.Extra["legal_combinations"] = len(legal)
	rec.Extra["illegal_combinations"] = len(illegal)
	// legal: batches of 32, bisected to single methods on failure
	for b := 0; b*32 < len(legal); b++ {
		if !mine(env, b) {
			continue
		}
		batch := legal[b*32 : min(len(legal), b*32+32)]
		v, bad := c08JudgeLegal(env, batch)
		rec.EvalN(len(batch))
		rec.NonTrivialDistinctN(len(batch))
		rec.ClassN("legal", len(batch))
		if b%9 == 0 {
			s := batch[len(batch)/2]
			_, ps, rs := s.expected()
			rec.Sample(map[string]any{"notations": s.method().NotationLines(), "method": s.method().MethodLine(), "expected_params": ps, "expected_results": rs})
		}
		if !v.OK && !v.Inconclusive {
			// attribute: judge the failing method alone (or every method alone when the batch was rejected as a whole)
			cands := batch
			if bad >= 0 {
				cands = batch[bad : bad+1]
			}
			attributed := false
			for _, s := range cands {
				v1, _ := c08JudgeLegal(env, []c08Shape{s})
				if !v1.OK && !v1.Inconclusive {
					attributed = true
					rec.Report(t, v1, mk([]c08Shape{s}, true))
				}
			}
			if !attributed {
				// the failure needs the company of the other methods / the other interface: the batch is the case
				rec.Report(t, v, mk(batch, true))
			}
			continue
		}
		rec.Report(t, v, mk(batch, true))
	}
	for i, s := range illegal {
		if !mine(env, i) {
			continue
		}
		v := c08JudgeIllegal(env, s)
		rec.Eval()
		rec.NonTrivialDistinctN(1)
		rec.Class("illegal-must-reject")
		if i%301 == 0 {
			rec.Sample(map[string]any{"illegal": true, "notations": s.method().NotationLines(), "method": s.method().MethodLine()})
		}
		rec.Report(t, v, mk([]c08Shape{s}, false))
	}
	rec.SetExhaustive(true)
}
