package props

import (
	"flag"
	"fmt"
	"os"
	"testing"

	"pgregory.net/rapid"
	"verif/hx"
)

// start prepares one property test process: environment, recorder, scratch directory.
func start(t *testing.T, id, level, rule string) (*hx.Env, *hx.Recorder) {
	t.Helper()
	env := hx.LoadEnv(id)
	if err := os.MkdirAll(env.Work, 0o755); err != nil {
		t.Fatal(err)
	}
	env.InitScratchCache()
	rec := hx.NewRecorder(env, level, rule)
	return env, rec
}

// needBin skips nothing: a missing binary is an infrastructure error.
func needBin(t *testing.T, env *hx.Env) {
	t.Helper()
	if env.Bin == "" || !hx.Exists(env.Bin) {
		t.Fatalf("VERIF_BIN is not set or missing; run through bin/check")
	}
}

// rapidRun runs one rapid property with a seed derived from VERIF_SEED, the property, the shard and
// the label. total is the number of cases over all shards.
func rapidRun(t *testing.T, env *hx.Env, label string, total int, prop func(*rapid.T)) {
	t.Helper()
	if v := os.Getenv("VERIF_TOTAL"); v != "" { // development aid: override the case count
		fmt.Sscan(v, &total)
	}
	n := total / env.Shards
	if n < 1 {
		n = 1
	}
	must(flag.Set("rapid.checks", fmt.Sprint(n)))
	must(flag.Set("rapid.seed", fmt.Sprint(env.SubSeed(label)>>1|1)))
	must(flag.Set("rapid.nofailfile", "true"))
	must(flag.Set("rapid.shrinktime", "45s"))
	t.Run(label, func(t *testing.T) { rapid.Check(t, prop) })
}

func must(err error) {
	if err != nil {
		panic(err)
	}
}

// mine reports whether item i of an enumeration belongs to this shard.
func mine(env *hx.Env, i int) bool { return i%env.Shards == env.Shard }
