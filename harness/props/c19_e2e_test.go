//go:build verif

package props

import (
	"encoding/json"
	"fmt"
	"os"
	"path/filepath"
	"regexp"
	"sort"
	"strings"
	"sync"
	"testing"
	"unicode"

	"github.com/reedom/convergen/pkg/logger"
	"github.com/reedom/convergen/pkg/parser"
	"pgregory.net/rapid"
	"verif/hx"
	"verif/pg"
)

// ---------------------------------------------------------------------------------------------
// C19, end to end: the matchers as the tool uses them. A list of 1-4 ":skip" lines (plain patterns and
// /regexps/, with inline flags) and ":case"/":case:off" lines in any order goes through the production
// sequence parse notations -> options -> builder -> generator (VerifSession, one preloaded package) and the
// set of "// skip:" comments of the generated function is compared with the set the statement defines:
// a destination path is skipped iff at least one pattern matches it on its own under the method's case rule.
// This is where a defect in how the parser stores, combines or re-compiles patterns shows (the API-level
// checks of TestC19 cannot see it).
// ---------------------------------------------------------------------------------------------

const c19E2ESetup = `//go:build convergen

package home

type KSubS struct {
	Name   string
	ID     int
	Kelvin int
	Token  string
	ſet    int
}

type KSubD struct {
	Name   string
	ID     int
	Kelvin int
	Token  string
	ſet    int
}

type KSrc struct {
	ID        int
	Name      string
	NAME      string
	Token     string
	TOKEN     string
	Created   int
	CreatedAt int
	Ünit      int
	ſet       int
	Sub       KSubS
	Kelvin    int
	Same      KSubS
}

type KDst struct {
	ID        int
	Name      string
	NAME      string
	Token     string
	TOKEN     string
	Created   int
	CreatedAt int
	Ünit      int
	ſet       int
	Sub       KSubD
	Kelvin    int
	Same      KSubS
}

type Convergen interface {
	ConvertForSkipDecisions(*KSrc) *KDst
}
`

// Sub has different struct types on the two sides (always copied member by member), Same the same type (copied as a
// whole unless a pattern matches one of its members)
var c19E2ETop = []string{"ID", "Name", "NAME", "Token", "TOKEN", "Created", "CreatedAt", "Ünit", "ſet", "Sub", "Kelvin", "Same"}
var c19E2ESub = []string{"Name", "ID", "Kelvin", "Token", "ſet"}

type c19E2EMeta struct {
	Lines []string `json:"lines"` // notation lines of the method, in order
}

var (
	c19E2EOnce    sync.Once
	c19E2ESession *parser.VerifSession
	c19E2EErr     error
)

func c19E2EInit(env *hx.Env) {
	dir := env.Scratch("c19e2e")
	files := (&pg.Prog{}).Files().Set(pg.SetupPath, c19E2ESetup)
	if err := hx.WriteTree(dir, files); err != nil {
		c19E2EErr = err
		return
	}
	logger.SetupLogger(logger.ForTest())
	os.Setenv("GOFLAGS", "")
	c19E2ESession, c19E2EErr = parser.NewVerifSession(filepath.Join(dir, filepath.FromSlash(pg.SetupPath)), filepath.Join(dir, filepath.FromSlash(pg.OutPath)))
}

var reSkipComment = regexp.MustCompile(`(?m)^\s*// skip: dst\.(\S+)\s*$`)

// c19E2EJudge runs the lines through the production sequence and compares the skip decisions.
func c19E2EJudge(m c19E2EMeta) hx.Verdict {
	if c19E2EErr != nil {
		return hx.Failf("harness|session", "%v", c19E2EErr)
	}
	// the method's case rule: the last :case / :case:off line, wherever it stands
	exact := true
	var patterns []string
	allValid := true
	for _, l := range m.Lines {
		f := strings.Fields(strings.TrimPrefix(strings.TrimSpace(l), "//"))
		if len(f) == 0 {
			continue
		}
		switch f[0] {
		case ":case":
			exact = true
		case ":case:off":
			exact = false
		case ":skip":
			if len(f) != 2 {
				return hx.Failf("harness|bad-line", "%q", l)
			}
			patterns = append(patterns, f[1])
			if _, valid := c19Oracle(f[1], "x", true); !valid {
				allValid = false
			}
		}
	}
	var out string
	var err error
	var panicked any
	func() {
		defer func() { panicked = recover() }()
		out, err = c19E2ESession.Generate("Convergen.ConvertForSkipDecisions", nil, m.Lines)
	}()
	if panicked != nil {
		return hx.Failf("C19|e2e|panic", "panic %v for lines %q", panicked, m.Lines)
	}
	if err != nil {
		if allValid {
			return hx.Failf("C19|e2e|valid-pattern-rejected", "every pattern is accepted by RE2 but the method is rejected: %v\nlines %q", err, m.Lines)
		}
		return hx.Pass
	}
	if !allValid {
		return hx.Pass // a pattern RE2 rejects: nothing is demanded (C14 owns the diagnostics)
	}
	matches := func(path string) bool {
		for _, p := range patterns {
			if w, _ := c19Oracle(p, path, exact); w {
				return true
			}
		}
		return false
	}
	want := map[string]bool{}
	for _, f := range c19E2ETop {
		if matches(f) {
			want[f] = true
			continue
		}
		if f == "Sub" || f == "Same" {
			for _, s := range c19E2ESub {
				if matches(f + "." + s) {
					want[f+"."+s] = true
				}
			}
		}
	}
	got := map[string]bool{}
	for _, mm := range reSkipComment.FindAllStringSubmatch(out, -1) {
		got[mm[1]] = true
	}
	var diff []string
	for p := range want {
		if !got[p] {
			diff = append(diff, "not skipped: "+p)
		}
	}
	for p := range got {
		if !want[p] {
			diff = append(diff, "skipped without a matching pattern: "+p)
		}
	}
	// a skipped path is never written
	for p := range want {
		for _, ln := range strings.Split(out, "\n") {
			t := strings.TrimSpace(ln)
			if strings.HasPrefix(t, "dst."+p+" =") || strings.HasPrefix(t, "dst."+p+".") || strings.HasPrefix(t, "dst."+p+"[") {
				diff = append(diff, "skipped path is written: "+t)
			}
		}
	}
	if len(diff) > 0 {
		sort.Strings(diff)
		cls := "plain"
		for _, p := range patterns {
			if isRegexpForm(p) {
				cls = "regexp"
			}
		}
		if len(patterns) > 1 {
			cls += "+several-patterns"
		}
		return hx.Failf("C19|e2e|"+cls+"|skip-set-differs", "case rule exact=%v, lines %q\n%s\n--- generated ---\n%s", exact, m.Lines, strings.Join(diff, "\n"), out)
	}
	return hx.Pass
}

func init() {
	c19EndToEnd = func(t *testing.T, env *hx.Env, rec *hx.Recorder) {
		c19E2EOnce.Do(func() { c19E2EInit(env) })
		if c19E2EErr != nil {
			t.Fatalf("harness|session: %v", c19E2EErr)
		}
		allPaths := append([]string{}, c19E2ETop...)
		for _, s := range c19E2ESub {
			allPaths = append(allPaths, "Sub."+s, "Same."+s)
		}
		rapidRun(t, env, "end-to-end", env.Pick(48000, 1600000), func(rt *rapid.T) {
			var m c19E2EMeta
			n := rapid.IntRange(1, 4).Draw(rt, "nskip")
			regexps, flags := 0, 0
			for i := 0; i < n; i++ {
				target := rapid.SampledFrom(allPaths).Draw(rt, "target")
				var p string
				switch rapid.IntRange(0, 9).Draw(rt, "kind") {
				case 0, 1, 2:
					p = mutateCase(rt, target)
				case 3:
					p = target
				case 4:
					// an inline flag group in front of a literal: the flag must stay inside its own pattern
					p = "/" + rapid.SampledFrom([]string{"(?i)", "(?-i)", "(?i)^", "(?-i)^", "(?s)", "(?U)"}).Draw(rt, "flag") + regexp.QuoteMeta(mutateCase(rt, target)) + rapid.SampledFrom([]string{"", "$"}).Draw(rt, "end") + "/"
					flags++
				case 5:
					// fully anchored literal
					p = "/^" + regexp.QuoteMeta(mutateCase(rt, target)) + "$/"
				default:
					p = "/" + genRegexp(target).Draw(rt, "re") + "/"
				}
				if strings.IndexFunc(p, unicode.IsSpace) >= 0 || p == "" {
					p = target
				}
				if isRegexpForm(p) {
					regexps++
				}
				m.Lines = append(m.Lines, "// :skip "+p)
			}
			// case toggles at any position (before, between, after the patterns)
			nt := rapid.IntRange(0, 2).Draw(rt, "ntoggles")
			for i := 0; i < nt; i++ {
				at := rapid.IntRange(0, len(m.Lines)).Draw(rt, "toggleAt")
				l := rapid.SampledFrom([]string{"// :case:off", "// :case:off", "// :case"}).Draw(rt, "toggle")
				m.Lines = append(m.Lines[:at], append([]string{l}, m.Lines[at:]...)...)
			}
			v := c19E2EJudge(m)
			rec.Eval()
			rec.Class("e2e:cases")
			if n > 1 {
				rec.Class("e2e:several-skip-lines")
			}
			if flags > 0 && n > 1 {
				rec.Class("e2e:inline-flag-next-to-another-pattern")
			}
			if nt > 0 {
				rec.Class("e2e:case-toggle-among-the-lines")
			}
			if regexps > 0 || nt > 0 || n > 1 {
				rec.NonTrivial(strings.Join(m.Lines, "\n"))
			}
			rec.Sample(map[string]any{"end_to_end_lines": m.Lines})
			b, _ := json.Marshal(m)
			rec.Report(rt, v, &hx.Case{Kind: "e2e", Meta: b})
		})
	}
	c19E2EReplay = func(env *hx.Env, c *hx.Case) hx.Verdict {
		c19E2EOnce.Do(func() { c19E2EInit(env) })
		var m c19E2EMeta
		if err := json.Unmarshal(c.Meta, &m); err != nil {
			return hx.Failf("harness|bad-meta", "%v", err)
		}
		return c19E2EJudge(m)
	}
	_ = fmt.Sprint
}
