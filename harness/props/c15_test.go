package props

import (
	"encoding/json"
	"fmt"
	"path/filepath"
	"strings"
	"testing"

	"pgregory.net/rapid"
	"verif/hx"
	"verif/pg"
)

// ---------------------------------------------------------------------------------------------
// C15 - a run writes only its output (and log); dry or failed runs write nothing there.
// Oracle: snapshot (mode, size, SHA-256 of every path) of the whole module root before and after.
// ---------------------------------------------------------------------------------------------

type c15Meta struct {
	Scenario  cliScenario `json:"scenario"`
	Identical string      `json:"identical,omitempty"`
	InputKind string      `json:"input_kind"`
}

func c15Judge(env *hx.Env, files hx.Files, m c15Meta) (hx.Verdict, *cliRun) {
	sc := m.Scenario
	r, err := execScenario(env, files, sc, m.Identical)
	if err != nil {
		return hx.Failf("harness|io", "%v", err), nil
	}
	defer r.cleanup()
	if r.Res.TimedOut {
		return hx.Verdict{OK: true, Inconclusive: true}, r
	}
	allowed := map[string]bool{}
	if !sc.Dry && r.Res.Exit == 0 {
		allowed[r.rel(r.OutAbs)] = true
	}
	if sc.Log && r.LogAbs != "" {
		allowed[r.rel(r.LogAbs)] = true
	}
	if sc.Log && r.LogAbs == "" {
		for _, p := range r.otherLogs() {
			allowed[p] = true
		}
	}
	// a path named through a symbolic link to its directory is the same file under its real name
	for _, abs := range []string{r.OutAbs, r.LogAbs} {
		if abs == "" || !allowed[r.rel(abs)] {
			continue
		}
		if dir, err := filepath.EvalSymlinks(filepath.Dir(abs)); err == nil {
			allowed[r.rel(filepath.Join(dir, filepath.Base(abs)))] = true
		}
	}
	if strings.HasPrefix(sc.OutKind, "is-input") {
		delete(allowed, sc.Input)
		delete(allowed, r.rel(r.OutAbs)) // the setup file is never modified, whatever the flags say
	}
	created, deleted, modified := r.Before.Diff(r.After)
	cls := fmt.Sprintf("%s|%s|pre=%s", m.InputKind, flagClass(sc), sc.Pre)
	for _, p := range deleted {
		return hx.Failf("C15|deleted|"+cls, "path %s was deleted (args %v, exit %d)", p, r.Args, r.Res.Exit), r
	}
	for _, p := range append(created, modified...) {
		if !allowed[p] {
			what := "frame"
			if p == r.rel(r.OutAbs) {
				what = "output-touched-by-dry-or-failed-run"
			} else if p == sc.Input {
				what = "setup-file-modified"
			}
			return hx.Failf("C15|"+what+"|"+cls, "path %s was created or modified; allowed %v (args %v, exit %d, stderr %s)", p, keys(allowed), r.Args, r.Res.Exit, tail(r.Res.Stderr, 300)), r
		}
	}
	return hx.Pass, r
}

func keys(m map[string]bool) []string {
	var out []string
	for k := range m {
		out = append(out, k)
	}
	return out
}

func TestC15(t *testing.T) {
	env, rec := start(t, "C15", "fault_enumeration",
		"inputs = rapid-generated accepted programs and, derived from each, rejected inputs of every failure stage (missing file, syntax error, no converter interface, bad notation, unknown converter, non-struct operand, "+
			"literal that makes the generated code unformattable); for each input all 2^4 flag sets x drawn (-out target in {default, other file, absolute, nested existing dir, missing dir, path that is a directory, a name ending in .log (the documented log path is then the output itself), the setup file itself, names whose stem ends in g / o / ., a name without extension, a name with a four-letter extension}, "+
			"output pre-state in {absent, other content, identical content, broken Go, a longer earlier result}, input spelling). Oracle: whole-tree snapshot diff: changed paths are a subset of {output (only if not -dry and exit 0), log (only with -log)}, nothing deleted. "+
			"Non-trivial: a run that is dry, failing, or has a pre-existing output; distinct by (input kind, flags, out target, pre-state, spelling, program hash).")
	defer rec.Done()
	needBin(t, env)
	rec.Assume("the sandbox runs as root: an unwritable output is realised by a missing parent directory and by an output path that is a directory")

	judgeCase := func(c *hx.Case) hx.Verdict {
		var m c15Meta
		if err := json.Unmarshal(c.Meta, &m); err != nil {
			return hx.Failf("harness|bad-meta", "%v", err)
		}
		v, _ := c15Judge(env, c.Files, m)
		return v
	}
	if env.Replay != "" {
		c, err := hx.LoadCase(env.Replay)
		if err != nil {
			t.Fatal(err)
		}
		rec.Eval()
		rec.Report(t, judgeCase(c), c)
		return
	}
	rec.ReplayTier(judgeCase)

	outKinds := []string{"", "", "same-dir", "cwd", "abs", "nested-dir", "missing-dir", "is-dir", "log-ext", "is-input", "is-input-alias", "is-input-symlink", "is-input-hardlink", "odd-stem-g", "odd-stem-o", "odd-stem-dot", "no-ext", "long-ext"}
	pres := []string{"absent", "other", "identical", "stale-broken", "longer"}
	rapidRun(t, env, "inputs", env.Pick(64, 600), func(rt *rapid.T) {
		p := genSmallProg(rt)
		accepted := p.Files()
		base, ok, _ := plainBaseline(env, accepted, pg.SetupPath)
		inputs := map[string]hx.Files{}
		if ok {
			inputs["accepted"] = accepted
		} else {
			rec.Class("generated-input-not-accepted")
			inputs["rejected-as-generated"] = accepted
		}
		for k, f := range rejectedVariants(p) {
			inputs[k] = f
		}
		phash := hx.Hash(progSummary(p))
		for _, kind := range pg.SortedKeys(inputs) {
			files := inputs[kind]
			input := pg.SetupPath
			for mask := 0; mask < 16; mask++ {
				sc := cliScenario{Input: input, Dry: mask&1 != 0, Print: mask&2 != 0, Log: mask&4 != 0,
					Spelling: rapid.SampledFrom(c18Spellings).Draw(rt, "spelling"), Pre: rapid.SampledFrom(pres).Draw(rt, "pre")}
				if mask&8 != 0 {
					sc.OutKind = rapid.SampledFrom(outKinds[2:]).Draw(rt, "outKind")
				}
				if sc.Print && rapid.IntRange(0, 2).Draw(rt, "stdoutFull") == 0 {
					sc.Stdout = "full"
					rec.Class("stdout:/dev/full")
				}
				if kind == "accepted" && rapid.IntRange(0, 9).Draw(rt, "missingInput") == 0 {
					sc.Input = "home/no_such_setup.go"
				}
				m := c15Meta{Scenario: sc, Identical: base, InputKind: kind}
				if sc.Input != pg.SetupPath {
					m.InputKind = "missing-file"
				}
				v, r := c15Judge(env, files, m)
				rec.Eval()
				rec.Class("input:" + m.InputKind)
				rec.Class("pre:" + sc.Pre)
				rec.Class("out:" + sc.OutKind)
				if r != nil {
					if r.Res.Exit != 0 {
						rec.Class("run:failed")
					} else {
						rec.Class("run:succeeded")
					}
					if r.Res.Crashed() {
						rec.Class("run:crashed(judged by C14, frame still checked)")
					}
					if sc.Dry || r.Res.Exit != 0 || r.PreBytes != nil {
						rec.NonTrivial(fmt.Sprint(m.InputKind, sc, phash))
					}
				}
				if mask == 6 {
					rec.Sample(map[string]any{"input_kind": m.InputKind, "scenario": sc, "interfaces": strings.Split(progSummary(p), "\n")[0]})
				}
				mb, _ := json.Marshal(m)
				rec.Report(rt, v, &hx.Case{Kind: "frame", Meta: mb, Files: files})
			}
		}
	})
}
