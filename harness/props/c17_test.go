package props

import (
	"fmt"
	"testing"

	"pgregory.net/rapid"
	"verif/pg"
)

func TestC17(t *testing.T) {
	runLayoutProperty(t, "C17",
		"rapid-generated input files with 0-3 (now and then 11-14) converter interfaces (named Convergen, ':convergen' with spacing variants and surrounding doc lines) mixed with unmarked interfaces and look-alikes "+
			"(':convergence', 'Convergen2', marker inside a block comment, marker in the middle of a sentence, marker on a struct, notation-looking lines on plain interfaces), same method name under different receivers, "+
			"and sibling files of the package (tagged and untagged) that hold marked interfaces or the package's only Convergen. "+
			"Oracle: exit 0 iff the input file itself holds a converter interface; generated functions = exactly the methods of those interfaces (each once, nothing else new); every other interface is carried over token-identically (Engine L differ); siblings byte-identical. "+
			"Non-trivial: file mixing >= 2 interface kinds, or with a sibling holding a marked interface, or without converter; distinct by setup text and siblings.",
		2000, 30000,
		func(rt *rapid.T) layoutMeta {
			f := pg.GenLayoutFile(rt, pg.LayoutProfile{MaxItems: 6, MaxConverters: 3, Comments: rapid.Bool().Draw(rt, "comments"), Unmarked: true, SameNames: true, NoConverter: true, Many: true})
			m := layoutMeta{Siblings: map[string]string{}}
			if len(f.Converters()) == 0 {
				m.NoConvert = true
			}
			switch rapid.IntRange(0, 4).Draw(rt, "sibling") {
			case 1:
				m.Siblings["home/sibling_tagged.go"] = "//go:build convergen\n\npackage home\n\n// :convergen\ntype SiblingConv interface {\n\tConvertSiblingTagged(*LInner) *LInner2\n}\n"
			case 2:
				m.Siblings["home/sibling_plain.go"] = "package home\n\n// :convergen\ntype SiblingPlainConv interface {\n\tConvertSiblingPlain(*LInner) *LInner2\n}\n"
			case 3:
				// the package's only interface named Convergen lives in a sibling
				named := false
				for _, it := range f.Converters() {
					if it.Name == "Convergen" {
						named = true
					}
				}
				if !named {
					m.Siblings["home/a_sibling_first.go"] = "//go:build convergen\n\npackage home\n\ntype Convergen interface {\n\tConvertSiblingNamed(*LInner) *LInner2\n}\n"
				}
			case 4:
				m.Siblings["home/zz_sibling_last.go"] = "//go:build convergen\n\npackage home\n\n// :convergen\ntype ZLast interface {\n\t// :recv x\n\tToOther(*LEmpty) *LInner2\n}\n"
			}
			m.File = *f
			return m
		},
		func(m layoutMeta, cls []string) bool {
			kinds := map[string]bool{}
			for _, it := range m.File.Items {
				if it.Kind == "iface" {
					kinds[fmt.Sprint(it.Iface.Converter, it.Iface.Name == "Convergen", len(it.Iface.Doc) > 0, it.Iface.BlockDoc != "")] = true
				}
			}
			return len(kinds) >= 2 || len(m.Siblings) > 0 || m.NoConvert
		})
}
