package props

import (
	"encoding/json"
	"fmt"
	"path/filepath"
	"sort"
	"strings"
	"testing"

	"pgregory.net/rapid"
	"verif/hx"
	"verif/pg"
)

// Structural judge shared by C04 (default matching), C05 (coverage) and C06 (explicit notations):
// run convergen, plan every method with the reference planner, inspect the generated functions and
// compare.

type methodIssue struct {
	Method string
	pg.Issue
	Func string
}

type structResult struct {
	Issues   []methodIssue
	Exit     int
	Stderr   string
	Out      string
	Plans    map[string]*pg.Plan
	Observed map[string]*pg.Observed
	Chosen   map[string]map[*pg.Leaf]int
	Funcs    map[string]*pg.FuncInfo
	Timeout  bool
	PlanErr  string
	Dir      string
	cleanup  func()
}

// methodLines returns the 1-based lines of a method declaration and of its comment lines.
func methodLines(setup, name string) map[int]bool {
	lines := strings.Split(setup, "\n")
	out := map[int]bool{}
	for i, ln := range lines {
		if strings.HasPrefix(ln, "\t"+name+"(") {
			out[i+1] = true
			for j := i - 1; j >= 0 && strings.HasPrefix(strings.TrimSpace(lines[j]), "//"); j-- {
				out[j+1] = true
			}
		}
	}
	return out
}

func funcKeyOf(m *pg.Method) string {
	r := ""
	if m.Recv != "" {
		r = strings.TrimPrefix(m.SrcType, "*")
	}
	return r + "." + m.Name
}

// useLogFlag makes structuralJudge pass -log (set by C05 for a third of its cases).
var useLogFlag bool

// structuralJudge runs the tool and compares plan and observation for every method. keep=true leaves
// the scratch module in place (res.cleanup removes it) for a following behavioural run.
func structuralJudge(env *hx.Env, p *pg.Prog, files hx.Files, keep bool) *structResult {
	res := &structResult{Plans: map[string]*pg.Plan{}, Observed: map[string]*pg.Observed{}, Chosen: map[string]map[*pg.Leaf]int{}, cleanup: func() {}}
	files = pg.EnsureZoo(files)
	w := pg.NewWorld(files, true, pg.OutPath)
	if w.Pkg("home") == nil || len(w.Errors) > 0 {
		res.PlanErr = "generated program does not type-check: " + w.ErrText()
		return res
	}
	var args []string
	if useLogFlag {
		args = []string{"-log", pg.SetupPath} // -log must not change what goes to stderr (C05) nor the code (C18)
	}
	o, err := pg.RunModule(env, files, args...)
	if err != nil {
		res.PlanErr = err.Error()
		return res
	}
	res.Dir = o.Dir
	if keep {
		res.cleanup = o.Cleanup
	} else {
		defer o.Cleanup()
	}
	res.Exit, res.Stderr, res.Out, res.Timeout = o.Res.Exit, o.Res.Stderr, o.Out, o.Res.TimedOut
	if o.Res.Exit != 0 || !o.HasOut {
		return res
	}
	funcs, err := pg.InspectOutput(o.Out)
	if err != nil {
		res.PlanErr = "output unparsable: " + err.Error()
		return res
	}
	res.Funcs = funcs
	setup, _ := files.Get(pg.SetupPath)
	setupAbs := filepath.Join(o.Dir, filepath.FromSlash(pg.SetupPath))
	for ii := range p.Ifaces {
		it := &p.Ifaces[ii]
		for mi := range it.Methods {
			m := &it.Methods[mi]
			plan, err := pg.NewPlan(w, p, it, m)
			if err != nil {
				res.PlanErr = err.Error()
				continue
			}
			fi := funcs[funcKeyOf(m)]
			if fi == nil {
				res.Issues = append(res.Issues, methodIssue{m.Name, pg.Issue{Property: "C03", Class: "method", Symptom: "function-missing", Detail: "no function for method " + m.Name}, ""})
				continue
			}
			obs := pg.Observe(fi, plan.LhsVar)
			res.Plans[m.Name], res.Observed[m.Name] = plan, obs
			for _, is := range pg.CheckCoverage(plan, obs) {
				res.Issues = append(res.Issues, methodIssue{m.Name, is, fi.Decl})
			}
			for _, is := range pg.CheckWarnings(plan, obs, o.Res.Stderr, setupAbs, methodLines(setup, m.Name)) {
				res.Issues = append(res.Issues, methodIssue{m.Name, is, fi.Decl})
			}
			is, chosen := pg.CheckMatching(plan, obs)
			res.Chosen[m.Name] = chosen
			for _, i := range is {
				res.Issues = append(res.Issues, methodIssue{m.Name, i, fi.Decl})
			}
		}
	}
	return res
}

func (r *structResult) verdictFor(prop string, p *pg.Prog) hx.Verdict {
	if r.Timeout {
		return hx.Verdict{OK: true, Inconclusive: true}
	}
	var mine []methodIssue
	for _, i := range r.Issues {
		if i.Property == prop {
			mine = append(mine, i)
		}
	}
	if len(mine) == 0 {
		return hx.Pass
	}
	sort.Slice(mine, func(a, b int) bool { return mine[a].Fingerprint() < mine[b].Fingerprint() })
	first := mine[0]
	var m *pg.Method
	for _, mm := range p.AllMethods() {
		if mm.Name == first.Method {
			m = mm
		}
	}
	notes := ""
	if m != nil {
		notes = strings.Join(m.NotationLines(), "; ") + " " + m.MethodLine()
	}
	return hx.Failf(first.Fingerprint(), "%s\n  method: %s\n  (%d issues of %s in this file)\n--- generated function ---\n%s\n--- stderr ---\n%s", first.Detail, notes, len(mine), prop, first.Func, tail(r.Stderr, 800))
}

type progMeta struct {
	Prog pg.Prog `json:"prog"`
	// AllowNil: see pg.DriverMethod.AllowNil
	AllowNil bool `json:"allow_nil,omitempty"`
}

func progCase(p *pg.Prog, files hx.Files, kind string) *hx.Case {
	b, _ := json.Marshal(progMeta{Prog: *p})
	return &hx.Case{Kind: kind, Meta: b, Files: files}
}

func loadProgCase(c *hx.Case) (*pg.Prog, error) {
	var m progMeta
	if err := json.Unmarshal(c.Meta, &m); err != nil {
		return nil, err
	}
	return &m.Prog, nil
}

// leafStats feeds the evidence histogram with the construct classes the planner saw.
func leafStats(rec *hx.Recorder, r *structResult) (nontrivial []string) {
	for name, plan := range r.Plans {
		_ = name
		plan.Walk(func(l *pg.Leaf) {
			c := l.Class
			if i := strings.Index(c, "("); i > 0 && len(c) > 24 {
				c = c[:24]
			}
			rec.Class("leaf:" + c)
			if l.Loose {
				rec.Class("leaf-loose")
			}
			if len(l.Alts) > 1 {
				rec.Class("leaf-with-alternatives")
			}
			if l.Descend || l.Explicit != "" || strings.Contains(l.Class, "nested") || strings.Contains(l.Class, "anon") || strings.Contains(l.Class, "multi") {
				nontrivial = append(nontrivial, l.Class)
			}
		})
	}
	return
}

func runStructural(t *testing.T, id, level, rule string, quick, thorough int, pf pg.Profile, nontrivial func(*pg.Prog, *structResult) bool, extra func(env *hx.Env, rec *hx.Recorder, t *testing.T)) {
	env, rec := start(t, id, level, rule)
	defer rec.Done()
	needBin(t, env)
	rec.Assume("reference planner = the harness's reading of the property statements on its own go/types view (tolerances T1-T27 of DESIGN.md section 4)")
	judgeCase := func(c *hx.Case) hx.Verdict {
		p, err := loadProgCase(c)
		if err != nil {
			return hx.Failf("harness|bad-meta", "%v", err)
		}
		r := structuralJudge(env, p, c.Files, false)
		if r.PlanErr != "" {
			return hx.Failf("harness|plan", "%s", r.PlanErr)
		}
		return r.verdictFor(id, p)
	}
	if env.Replay != "" {
		c, err := hx.LoadCase(env.Replay)
		if err != nil {
			t.Fatal(err)
		}
		rec.Eval()
		rec.Report(t, judgeCase(c), c)
		return
	}
	rec.ReplayTier(judgeCase)
	if extra != nil {
		extra(env, rec, t)
	}
	rapidRun(t, env, "programs", env.Pick(quick, thorough), func(rt *rapid.T) {
		p := pg.GenProg(rt, pf)
		files := p.Files()
		useLogFlag = id == "C05" && rapid.IntRange(0, 2).Draw(rt, "logFlag") == 0
		if useLogFlag {
			rec.Class("run-with--log")
		}
		r := structuralJudge(env, p, files, false)
		useLogFlag = false
		if r.PlanErr != "" {
			rec.Class("generator-invalid-or-plan-error")
			if rec.Classes["generator-invalid-or-plan-error"] > 10+rec.Evals/10 {
				rt.Fatalf("too many plan errors: %s\n%s", r.PlanErr, p.RenderSetup())
			}
			return
		}
		rec.Eval()
		if r.Exit != 0 {
			rec.Class("outcome:rejected (judged by C03)")
			return
		}
		rec.Class("outcome:judged")
		rec.ClassN("methods", len(r.Plans))
		leafStats(rec, r)
		if nontrivial(p, r) {
			rec.NonTrivial(progSummary(p) + fmt.Sprint(p.Structs))
		}
		rec.Sample(progSummary(p))
		rec.Report(rt, r.verdictFor(id, p), progCase(p, files, "program"))
	})
}

func TestC05(t *testing.T) {
	pf := fullProfile()
	pf.Hooks = false
	// the scratch modules of this check live in directories with per-cent signs in their names: the positions in the
	// warnings must come out verbatim
	pg.ScratchPrefix = "m%vat%d100%-"
	defer func() { pg.ScratchPrefix = "m" }()
	runStructural(t, "C05", "exploration",
		"rapid-generated programs with destination shapes nested 0-3 deep (by-value structs of different types, embedded local/imported, anonymous structs also inside imported types, imported structs with only hidden members, empty structs), fields targeted by several notations or by a notation and a :skip. "+
			"Oracle: the set of destination leaves visible from the home package is recomputed from the harness's own type-check; from the output every generated function's assignments, `// skip:` and `// no match:` comments are collected: each leaf is covered exactly once (itself or an ancestor), no mentioned path has an invisible component, "+
			"and every `no match` has its own stderr warning starting with <setup path>:<line> of the method or one of its notations (the scratch module path contains per-cent signs). Non-trivial: destination with a nested/embedded/anonymous/hidden/empty struct or an explicitly targeted field; distinct by program text.",
		1600, 40000, pf,
		func(p *pg.Prog, r *structResult) bool {
			for _, plan := range r.Plans {
				nt := false
				plan.Walk(func(l *pg.Leaf) {
					if l.Descend || l.Explicit != "" || strings.Contains(l.Class, "struct") {
						nt = true
					}
				})
				if nt {
					return true
				}
			}
			return false
		}, nil)
}

// ---------------------------------------------------------------------------------------------
// C04 - default matching: same name, compatible type, only opted-in conversions.
// ---------------------------------------------------------------------------------------------

func altsSignature(l *pg.Leaf) string {
	var parts []string
	for _, a := range l.Alts {
		parts = append(parts, a.Kind+":"+a.Conv+":"+a.Slice)
	}
	if l.Descend {
		parts = append(parts, "descend")
	}
	if l.Loose {
		parts = append(parts, "loose")
	}
	return strings.Join(parts, "|")
}

// c04Matrix enumerates every ordered pair of the type alphabet as same-named fields, 40 pairs per
// struct pair, under all 2^4 toggle settings x {match name, match none}.
func c04Matrix(env *hx.Env, rec *hx.Recorder, t *testing.T) {
	atoms := pg.Alphabet
	type pair struct{ a, b int }
	var pairs []pair
	for i := range atoms {
		for j := range atoms {
			pairs = append(pairs, pair{i, j})
		}
	}
	const per = 40
	nfiles := (len(pairs) + per - 1) / per
	for fi := 0; fi < nfiles; fi++ {
		if !mine(env, fi) {
			continue
		}
		chunk := pairs[fi*per : min(len(pairs), fi*per+per)]
		p := &pg.Prog{}
		s := pg.StructDecl{Pkg: "home", Name: "MS"}
		d := pg.StructDecl{Pkg: "home", Name: "MD"}
		for k, pr := range chunk {
			n := fmt.Sprintf("F%02d", k)
			s.Fields = append(s.Fields, pg.Field{Name: n, Home: atoms[pr.a].Home, Kind: atoms[pr.a].Kind})
			d.Fields = append(d.Fields, pg.Field{Name: n, Home: atoms[pr.b].Home, Kind: atoms[pr.b].Kind})
		}
		p.Structs = []pg.StructDecl{s, d}
		it := pg.Iface{Name: "Convergen"}
		tri := func(b bool) pg.Tri {
			if b {
				return 1
			}
			return 0
		}
		for mask := 0; mask < 32; mask++ {
			m := pg.Method{Name: fmt.Sprintf("Convert%02d", mask), SrcType: "MS", DstType: "MD", SrcPtr: true, DstPtr: true}
			m.Opts.Case = pg.Tri(0)
			if mask&1 != 0 {
				m.Opts.Case = 2
			}
			m.Opts.Getter = tri(mask&2 != 0)
			m.Opts.Stringer = tri(mask&4 != 0)
			m.Opts.Typecast = tri(mask&8 != 0)
			if mask&16 != 0 {
				m.Opts.Match = "none"
			}
			it.Methods = append(it.Methods, m)
		}
		p.Ifaces = []pg.Iface{it}
		p.BlankImportFieldPkgs = true
		p.FixImports()
		files := p.Files()
		r := structuralJudge(env, p, files, false)
		if r.PlanErr != "" {
			t.Fatalf("matrix file %d: %s", fi, r.PlanErr)
		}
		if r.Exit != 0 {
			rec.Report(t, hx.Failf("C04|matrix|rejected", "matrix file %d rejected: %s", fi, tail(r.Stderr, 600)), progCase(p, files, "matrix"))
			continue
		}
		// per field pair: does the outcome depend on a toggle?
		depends := map[string]map[string]bool{}
		for _, plan := range r.Plans {
			plan.Walk(func(l *pg.Leaf) {
				if strings.Contains(l.Path, ".") {
					return
				}
				if depends[l.Path] == nil {
					depends[l.Path] = map[string]bool{}
				}
				depends[l.Path][altsSignature(l)] = true
			})
		}
		nt := 0
		for _, sigs := range depends {
			if len(sigs) > 1 {
				nt++
			}
		}
		rec.EvalN(len(chunk) * 32)
		rec.NonTrivialDistinctN(nt)
		rec.ClassN("matrix:type-pairs", len(chunk))
		rec.ClassN("matrix:type-pairs-whose-outcome-depends-on-a-toggle", nt)
		rec.ClassN("matrix:methods", 32)
		leafStats(rec, r)
		if fi%31 == 0 {
			rec.Sample(map[string]any{"matrix_file": fi, "first_pairs": fmt.Sprintf("%s->%s, %s->%s …", atoms[chunk[0].a].Home, atoms[chunk[0].b].Home, atoms[chunk[1].a].Home, atoms[chunk[1].b].Home), "methods": "all 2^4 toggle settings x match {name,none}"})
		}
		rec.Report(t, r.verdictFor("C04", p), progCase(p, files, "matrix"))
	}
	rec.SetExhaustive(true)
	rec.Extra["matrix_alphabet_size"] = len(atoms)
}

func TestC04(t *testing.T) {
	pf := fullProfile()
	pf.Hooks, pf.Notations = false, false
	runStructural(t, "C04", "exploration",
		fmt.Sprintf("(a) complete matrix: every ordered pair of the %d-type alphabet (basic, named, stringer by value/pointer receiver, pointers, structs local/imported/anonymous/empty/hidden, slices, arrays, maps, interfaces, error, func, chan, package-layout variants) as same-named fields, 40 pairs per struct pair, under all 2^4 settings of case/getter/stringer/typecast x match {name, none}; ", len(pg.Alphabet))+
			"(b) rapid struct pairs with field names differing in case, export status and order, unexported members with getters (value/pointer receiver), embedded members, structs declared in an imported package, interface-level and method-level toggles, all method shapes; no explicit notations. "+
			"Oracle: reference matcher on the harness's own go/types view decides per destination field {must assign from which candidate with which conversion, must report no match, either (T3,T4,T9,T24,T25)}; the observed assignment (source member, conversion kind, slice loop) or `no match` comment is read from the generated function. "+
			"Non-trivial: a field pair whose acceptable outcome differs between at least two toggle settings (matrix) / a program with a nested, getter-matched or multi-candidate field (random part).",
		1400, 30000, pf,
		func(p *pg.Prog, r *structResult) bool {
			return len(leafStats(hx.NewRecorder(hx.LoadEnv("C04"), "", ""), r)) > 0
		},
		c04Matrix)
}
