package props

import (
	"encoding/json"
	"fmt"
	"path/filepath"
	"regexp"
	"sort"
	"strings"
	"testing"

	"pgregory.net/rapid"
	"verif/hx"
	"verif/pg"
)

// ---------------------------------------------------------------------------------------------
// C14 - bad input yields a diagnostic and a non-zero exit, never a crash or hang.
// ---------------------------------------------------------------------------------------------

// hostile function zoo (ordinary file of the home package) named by :conv/:preprocess/:postprocess
const c14Zoo = `package home

type MyErr interface{ Error() string }

type HA struct {
	PE  *MyErr
	X   int
	S   string
	E   error
	I   interface{}
	P   *HA
	PP  **int
	Err error
}

type HB struct {
	PE  *error
	X   int
	S   string
	E   error
	I   interface{ String() string }
	P   *HB
	PP  **int
	Err error
	Un  error
}

func (a HA) Get() int             { return a.X }
func (a HA) Two() (int, int)      { return 1, 2 }
func (a HA) WithArg(i int) int    { return i }
func (a *HA) Nothing()            {}
func (a HA) ErrGet() (int, error) { return 0, nil }

type NotAFunc int

// BaseConv is embedded by some converter interfaces: its method is convertible.
type BaseConv interface {
	ConvertBase(*HA) *HB
}

var varFunc = func(i int) int { return i }
var notFunc = 3

// hzErr is a concrete type that implements error: a function that returns it (instead of error) has not the
// documented shape "no result, or error" / "(T, error)" - a nil *hzErr stored in an error is not nil.
type hzErr struct{}

func (*hzErr) Error() string { return "hz" }

func h2ce(d *HB, s *HA) *hzErr        { return nil }
func f1ce(i int) (int, *hzErr)        { return i, nil }
func h2s(d *HB, s *HB)                {}
func h3s2(d *HB, s *HA, x string)     {}

func f0() int                       { return 0 }
// ConvertTakenBySibling: an ordinary function of the package that has the name of a converter method (see file kind 5)
func ConvertTakenBySibling(a *HA) *HB { return nil }

func f1(i int) int                  { return i }
func f1s(s string) string           { return s }
func f1e(i int) (int, error)        { return i, nil }
func f2(a, b int) int               { return a + b }
func f1r0(i int)                    {}
func f1r3(i int) (int, int, error)  { return i, i, nil }
func f1r2(i int) (int, int)         { return i, i }
func fv(xs ...int) int              { return len(xs) }
func fg[T any](x T) T               { return x }
func fp(p *int) int                 { return *p }
func fpp(p **int) **int             { return p }
func fi(i interface{}) interface{}  { return i }
func ferr(e error) error            { return e }

func h0()                                   {}
func h1(d *HB)                              {}
func h2(d *HB, s *HA)                       {}
func h2v(d HB, s HA)                        {}
func h2e(d *HB, s *HA) error                { return nil }
func h2i(d *HB, s *HA) int                  { return 0 }
func h2ee(d *HB, s *HA) (error, error)      { return nil, nil }
func h3(d *HB, s *HA, x int)                {}
func h3s(d *HB, s *HA, x string) error      { return nil }
func h2x(d *HA, s *HB)                      {}
func h2any(d interface{}, s interface{})    {}
func hv(d *HB, s *HA, xs ...int)            {}
func hg[T any](d *T, s *HA)                 {}
`

var c14Convs = []string{"f0", "f1", "f1s", "f1e", "f2", "f1r0", "f1r3", "f1r2", "fv", "fg", "fp", "fpp", "fi", "ferr", "varFunc", "notFunc", "NotAFunc", "HA", "nosuch",
	"ext.IntToStr", "ext.unexportedConv", "ext.Nope", "nopkg.F", "ext.Inner", "ConvertOther", "h2", "HA.Get", "int", "len", "string", "nil", "true", "_"}
var c14Hooks = []string{"h0", "h1", "h2", "h2v", "h2e", "h2i", "h2ee", "h3", "h3s", "h2x", "h2any", "hv", "hg", "f1", "f0", "nosuch", "notFunc", "NotAFunc", "ext.IntToStr", "ext.unexportedConv", "odd.Pre", "HA", "len", "nil"}
var c14Hostile = []string{"", ".", "..", "$", "$0", "$1", "$2", "$99999999999999999999", "$-1", "$1.", "$2.X", "$a", "()", "X()", "X().", ".X", "X..Y", "X.()", "/(/", "/\\pL/", "/[/", "//", "/", "/a", "a/",
	"\"", "'", "`", "\"unterminated", "X\x00Y", "\xff\xfe", "X.Y.Z.W.V.U", "x", "X", "S", "E", "Err", "Un", "P", "P.X", "P.P.P.X", "PP", "I", "Get()", "Two()", "WithArg()", "Nothing()", "ErrGet()", "Get().X",
	":skip", "//", "/*", "*/", "{", "}", ")(", "nil", "1", "-", "=", ",", ";", strings.Repeat("A", 300), strings.Repeat("X.", 80) + "X", "return", "arg", "name", "none", "tag", "on", "off"}
var c14Notations = []string{"style", "match", "case", "case:off", "getter", "getter:off", "stringer", "stringer:off", "typecast", "typecast:off", "recv", "reverse", "skip", "map", "tag",
	"conv", "conv:type", "conv:with", "literal", "preprocess", "postprocess", "convergen", "bogus", "", ":", "skip:off", "STYLE"}
var c14Methods = []string{
	"(*HA) *HB", "(HA) HB", "(*HA) (*HB, error)", "(a *HA, n int) *HB", "(*HA, int, string) (*HB, error)", "(*HB) *HA",
	"()", "() *HB", "(*HA)", "(int) *HB", "(*HA) int", "(*HA) error", "(**HA) *HB", "(*HA) **HB", "(interface{}) *HB", "(*HA) interface{}", "(error) error",
	"(*HA) (*HB, int)", "(*HA) (*HB, error, error)", "(*HA) (error, *HB)", "(...*HA) *HB", "(*HA, ...int) *HB", "(*Nope) *HB", "(*HA) *nopkg.T", "(*ext.Inner) *HB", "(*HA) *ext.Hidden",
	"(dst *HA) (src *HB)", "(err *HA) (*HB, error)", "(arg0 *HA, src int) *HB", "([]HA) []HB", "(map[string]HA) *HB", "(func()) *HB", "(chan HA) *HB", "(*HA) (dst, src *HB)", "(*NotAFunc) *HB", "(*HA) struct{ X int }",
}

type c14Meta struct {
	Setup string `json:"-"`
	// Planted: the only malformation is in the item on this line (1-based); "" when nothing is planted.
	PlantedLines []int  `json:"planted_lines,omitempty"`
	MustReject   bool   `json:"must_reject,omitempty"`
	Methods      int    `json:"methods"` // number of converter-interface methods (for exit 0)
	Note         string `json:"note,omitempty"`
	// Args/Env: an odd invocation (part c); the demands on a successful run's default output do not apply
	Args []string `json:"args,omitempty"`
	Env  []string `json:"env,omitempty"`
}

var reC14Pos = regexp.MustCompile(`^(.*\.go):(\d+):(\d+): `)

func c14Judge(env *hx.Env, files hx.Files, m c14Meta) (hx.Verdict, string) {
	var o *pg.Outcome
	var err error
	if m.Args != nil || m.Env != nil {
		o, err = pg.RunModuleEnv(env, files, m.Env, m.Args...)
	} else {
		o, err = pg.RunModule(env, files)
	}
	if err != nil {
		return hx.Failf("harness|io", "%v", err), "harness"
	}
	defer o.Cleanup()
	cls := "hostile"
	if len(m.PlantedLines) > 0 {
		cls = "planted"
	}
	if o.Res.TimedOut {
		// hang clause: re-run in isolation three times with the full limit before reporting
		for i := 0; i < 3; i++ {
			o2, _ := pg.RunModuleEnv(env, files, m.Env, m.Args...)
			to := o2.Res.TimedOut
			o2.Cleanup()
			if !to {
				return hx.Verdict{OK: true, Inconclusive: true}, "timeout-not-reproduced"
			}
		}
		return hx.Failf("C14|hang|"+cls, "the run does not terminate within the limit (4 attempts)"), "hang"
	}
	if o.Res.Crashed() {
		first := ""
		for _, ln := range strings.Split(o.Res.Stderr, "\n") {
			if strings.HasPrefix(ln, "panic:") || strings.HasPrefix(ln, "fatal error:") {
				first = ln
				break
			}
		}
		where := ""
		for _, ln := range strings.Split(o.Res.Stderr, "\n") {
			if strings.Contains(ln, "/repo/pkg/") || strings.Contains(ln, "convergen/pkg/") {
				where = strings.TrimSpace(ln)
				if i := strings.LastIndex(where, "/pkg/"); i >= 0 {
					where = where[i:]
				}
				if i := strings.Index(where, "("); i > 0 && !strings.HasPrefix(where[i:], "(*") {
					where = where[:i]
				} else if j := strings.Index(where, ")"); j > 0 {
					if k := strings.Index(where[j:], "("); k > 0 {
						where = where[:j+k]
					}
				}
				break
			}
		}
		return hx.Failf("C14|crash|"+pg.NormalizeCompilerMsg(first)+"@"+where, "the tool crashes:\n%s", tail(o.Res.Stderr, 2500)), "crash"
	}
	if o.Res.Exit != 0 {
		if strings.TrimSpace(o.Res.Stderr) == "" {
			return hx.Failf("C14|silent-failure|"+cls, "exit %d with nothing on stderr", o.Res.Exit), "silent-failure"
		}
		if len(m.PlantedLines) > 0 {
			setupAbs := filepath.Join(o.Dir, filepath.FromSlash(pg.SetupPath))
			// the error message is the first stderr line that is not a no-match warning (those are positioned
			// lines of their own, "<pos>: no assignment …", and may precede the error when an earlier or an
			// embedded method was already built)
			first := ""
			for _, ln := range strings.Split(o.Res.Stderr, "\n") {
				if strings.TrimSpace(ln) == "" || strings.Contains(ln, ": no assignment ") {
					continue
				}
				first = ln
				break
			}
			mm := reC14Pos.FindStringSubmatch(first)
			okPos := false
			if mm != nil && mm[1] == setupAbs {
				for _, l := range m.PlantedLines {
					if fmt.Sprint(l) == mm[2] {
						okPos = true
					}
				}
			}
			if !okPos {
				return hx.Failf("C14|diagnostic-position|"+m.Note, "first diagnostic %q does not start with %s:<line in %v>:<col>:\n%s", first, setupAbs, m.PlantedLines, m.Setup), "bad-position"
			}
			return hx.Pass, "rejected-with-position"
		}
		return hx.Pass, "rejected"
	}
	if m.MustReject {
		return hx.Failf("C14|accepted-malformed|"+m.Note, "input with a planted malformation (%s) is accepted (exit 0)\n%s\n--- output ---\n%s", m.Note, m.Setup, o.Out), "accepted-malformed"
	}
	if (m.Args != nil || m.Env != nil) && m.Methods == 0 {
		return hx.Pass, "accepted" // an odd invocation: the output may be anywhere
	}
	// success: no method may be dropped
	if !o.HasOut {
		return hx.Failf("C14|exit0-without-output|"+cls, "exit 0 but no output"), "no-output"
	}
	got, err := funcKeys(o.Out)
	if err != nil {
		return hx.Failf("C14|exit0-unparsable-output|"+cls, "%v", err), "unparsable"
	}
	n := 0
	for _, k := range got {
		if strings.Contains(k, ".Convert") {
			n++
		}
	}
	if n != m.Methods {
		return hx.Failf("C14|method-dropped|"+cls, "exit 0 with %d generated functions for %d methods\n%s\n--- output ---\n%s", n, m.Methods, m.Setup, o.Out), "method-dropped"
	}
	return hx.Pass, "accepted"
}

// planted malformations: notation lines (or a method line) that must be rejected with a position.
// {note, notation line or "", method signature or ""}
var c14Planted = [][3]string{
	{"style-no-arg", ":style", ""}, {"style-bogus", ":style sideways", ""}, {"match-no-arg", ":match", ""}, {"match-bogus", ":match fuzzy", ""},
	{"recv-no-arg", ":recv", ""}, {"recv-bad-ident", ":recv 1x", ""}, {"recv-bad-ident2", ":recv a-b", ""},
	{"skip-no-arg", ":skip", ""}, {"skip-bad-regexp", ":skip /(/", ""}, {"skip-bad-regexp2", ":skip /[a/", ""},
	{"map-one-arg", ":map X", ""}, {"map-no-arg", ":map", ""}, {"conv-one-arg", ":conv f1", ""}, {"conv-no-arg", ":conv", ""},
	{"conv-unknown-func", ":conv nosuch X", ""}, {"conv-not-a-func", ":conv notFunc X", ""}, {"conv-type-name", ":conv NotAFunc X", ""},
	{"conv-two-params", ":conv f2 X", ""}, {"conv-no-params", ":conv f0 X", ""}, {"conv-no-result", ":conv f1r0 X", ""}, {"conv-three-results", ":conv f1r3 X", ""},
	{"conv-second-result-not-error", ":conv f1r2 X", ""}, {"conv-unknown-package", ":conv nopkg.F X", ""}, {"conv-unknown-in-package", ":conv ext.Nope X", ""},
	{"literal-one-arg", ":literal X", ""}, {"literal-no-arg", ":literal", ""},
	{"preprocess-no-arg", ":preprocess", ""}, {"preprocess-unknown", ":preprocess nosuch", ""}, {"preprocess-returns-int", ":preprocess h2i", ""},
	{"preprocess-two-results", ":preprocess h2ee", ""}, {"preprocess-no-params", ":preprocess h0", ""}, {"preprocess-one-param", ":preprocess h1", ""},
	{"preprocess-not-a-func", ":preprocess notFunc", ""}, {"preprocess-swapped-types", ":preprocess h2x", ""}, {"preprocess-extra-count", ":preprocess h3", ""},
	{"preprocess-error-without-error-result", ":preprocess h2e", ""}, {"postprocess-no-params", ":postprocess h0", ""}, {"postprocess-one-param", ":postprocess h1", ""},
	{"postprocess-unknown", ":postprocess nosuch", ""}, {"postprocess-unexported-imported", ":postprocess ext.unexportedConv", ""},
	{"reverse-without-style-arg", ":reverse", ""},
	{"recv-blank-identifier", ":recv _", ""},
	{"conv-generated-method-with-additional-arguments", ":conv ConvertAWithExtras P P", ""}, {"conv-generated-method-in-arg-style", ":conv ConvertAArgStyle P P", ""},
	{"conv-generated-method-with-receiver", ":conv ConvertAReceiver P P", ""},
	{"preprocess-returns-concrete-error-type", ":preprocess h2ce", "(*HA) (*HB, error)"}, {"postprocess-returns-concrete-error-type", ":postprocess h2ce", "(*HA) (*HB, error)"},
	{"conv-second-result-concrete-error-type", ":conv f1ce X", "(*HA) (*HB, error)"},
	{"preprocess-second-param-mismatch", ":preprocess h2s", ""}, {"postprocess-additional-param-type-mismatch", ":postprocess h3s2", "(a *HA, n int) *HB"},
	{"method-second-result-not-error", "", "(*HA) (*HB, int)"}, {"method-three-results", "", "(*HA) (*HB, int, error)"}, {"method-second-result-concrete-error-type", "", "(*HA) (*HB, *hzErr)"},
	{"conv-package-imported-only-further-down", ":conv audit.Encode X", ""}, {"postprocess-package-imported-only-further-down", ":postprocess audit.Finish", ""},
	{"conv-name-with-three-dots", ":conv ext.IntToStr.Nope.Really X", ""}, {"preprocess-name-with-two-dots", ":preprocess ext.IntToStr.Nope", ""},
	{"method-no-params", "", "() *HB"}, {"method-no-results", "", "(*HA)"}, {"method-non-struct-src", "", "(int) *HB"}, {"method-non-struct-dst", "", "(*HA) int"},
	{"method-pointer-pointer-src", "", "(**HA) *HB"}, {"method-pointer-pointer-dst", "", "(*HA) **HB"}, {"method-interface-src", "", "(interface{}) *HB"},
	{"method-undefined-src", "", "(*Nope) *HB"}, {"method-undefined-dst", "", "(*HA) *Nope"}, {"method-slice-operands", "", "([]HA) []HB"}, {"method-error-operands", "", "(error) error"},
}

func c14Files(setup string) hx.Files {
	return (&pg.Prog{}).Files().Set(pg.SetupPath, setup).Set("home/hzoo.go", c14Zoo)
}

const c14Head = "//go:build convergen\n\npackage home\n\nimport (\n\t_ \"example.com/m/ext\"\n\t_ \"example.com/m/odd-dir\"\n)\n\n"

func TestC14(t *testing.T) {
	env, rec := start(t, "C14", "exploration",
		"(a) table of planted single malformations (68 notation/method errors) each embedded in rapid-drawn otherwise valid context (position in the method list, neighbouring valid notations): must be rejected with a first diagnostic that starts with file:line of the planted item; "+
			"(b) rapid grammar of hostile setups: 0-6 notation lines per method/interface built from every notation name (known, unknown, misplaced) with 0-4 arguments drawn from valid tokens and hostile constants (empty, '.', '$0', '$99999999999999999999', '/(/', '/\\pL/', unbalanced quotes, NUL, invalid UTF-8, 300-char tokens, deep paths), "+
			"functions from a zoo of 37 signatures (0-4 params, 0-3 results, variadic, generic, vars, types, imported unexported, builtins), 36 method signatures (no params/results, non-struct, **T, interface, error, unresolved, variadic, named like dst/src/err), error- and interface-typed fields; also Go files without converter interface and with syntax errors. "+
			"Oracle: terminates (60 s limit, re-tried 3x), no panic/fatal error/signal, exit 0 or non-zero with a message, exit 0 implies one generated function per method. Non-trivial: input with a planted malformation or at least one hostile token; distinct by hash of the setup text.")
	defer rec.Done()
	needBin(t, env)
	rec.Assume("T22: a crash is a signal or a Go panic/fatal error dump on stderr; T20: a time-out that does not reproduce is inconclusive")

	judgeCase := func(c *hx.Case) hx.Verdict {
		var m c14Meta
		if err := json.Unmarshal(c.Meta, &m); err != nil {
			return hx.Failf("harness|bad-meta", "%v", err)
		}
		m.Setup, _ = c.Files.Get(pg.SetupPath)
		v, _ := c14Judge(env, c.Files, m)
		return v
	}
	if env.Replay != "" {
		c, err := hx.LoadCase(env.Replay)
		if err != nil {
			t.Fatal(err)
		}
		rec.Eval()
		rec.Report(t, judgeCase(c), c)
		return
	}
	rec.ReplayTier(judgeCase)
	mk := func(files hx.Files, m c14Meta, kind string) *hx.Case {
		b, _ := json.Marshal(m)
		return &hx.Case{Kind: kind, Meta: b, Files: files}
	}

	validNotes := []string{":typecast", ":stringer", ":getter", ":case:off", ":skip S", ":map X X", ":conv f1 X", ":literal S \"x\"", ":postprocess h2", ":style return"}

	// (a) planted malformations in varying context
	rapidRun(t, env, "planted", env.Pick(len(c14Planted)*12, len(c14Planted)*200), func(rt *rapid.T) {
		pl := rapid.SampledFrom(c14Planted).Draw(rt, "planted")
		var sb strings.Builder
		sb.WriteString(c14Head)
		sb.WriteString("type Convergen interface {\n")
		embedded := rapid.IntRange(0, 3).Draw(rt, "embedBase") == 0
		if embedded {
			sb.WriteString("\tBaseConv\n") // contributes the convertible method ConvertBase
		}
		line := strings.Count(sb.String(), "\n") + 1
		nBefore := rapid.IntRange(0, 2).Draw(rt, "before")
		// a hook that an earlier (alphabetically first) method uses validly and the planted method misuses
		sharedHook := map[string][2]string{"preprocess-extra-count": {":preprocess h3", "(*HA, int) *HB"}, "preprocess-error-without-error-result": {":preprocess h2e", "(*HA) (*HB, error)"},
			"preprocess-swapped-types": {":preprocess h2x", "(*HB) *HA"}}
		// a method generated in the same run that the planted :conv names although it cannot serve as a converter
		genConv := map[string]string{"conv-generated-method-with-additional-arguments": "\tConvertAWithExtras(*HA, int) *HB\n",
			"conv-generated-method-in-arg-style": "\t// :style arg\n\tConvertAArgStyle(*HA) *HB\n", "conv-generated-method-with-receiver": "\t// :recv r\n\tConvertAReceiver(*HA) *HB\n"}
		if txt, ok := genConv[pl[0]]; ok {
			sb.WriteString(txt)
			line += strings.Count(txt, "\n")
		}
		if sh, ok := sharedHook[pl[0]]; ok && rapid.Bool().Draw(rt, "sharedHook") {
			sb.WriteString("\t// " + sh[0] + "\n\tConvertAShared" + sh[1] + "\n")
			line += 2
		}
		nAfter := rapid.IntRange(0, 2).Draw(rt, "after")
		k := 0
		writeValid := func() {
			for _, n := range rapid.SliceOfNDistinct(rapid.SampledFrom(validNotes), 0, 3, func(s string) string { return strings.Fields(s)[0] }).Draw(rt, "valid") {
				sb.WriteString("\t// " + n + "\n")
				line++
			}
			if rapid.IntRange(0, 2).Draw(rt, "validExtra") == 0 {
				// additional arguments of a self-referential struct type, of a slice of it, of a func type that mentions it
				fmt.Fprintf(&sb, "\tConvertValid%d(*HA, %s) *HB\n", k, rapid.SampledFrom([]string{"*HA", "[]*HA", "map[string][]HA", "func(*HA) *HA", "HA"}).Draw(rt, "validExtraT"))
			} else {
				fmt.Fprintf(&sb, "\tConvertValid%d(*HA) *HB\n", k)
			}
			k++
			line++
		}
		for i := 0; i < nBefore; i++ {
			writeValid()
		}
		var planted []int
		sig := "(*HA) *HB"
		if pl[2] != "" {
			sig = pl[2]
		}
		// neighbours of the planted notation inside the same method
		pre := rapid.SliceOfNDistinct(rapid.SampledFrom(validNotes[:5]), 0, 2, func(s string) string { return s }).Draw(rt, "pre")
		for _, n := range pre {
			sb.WriteString("\t// " + n + "\n")
			line++
		}
		if pl[1] != "" {
			sb.WriteString("\t// " + pl[1] + "\n")
			planted = append(planted, line)
			line++
		}
		fmt.Fprintf(&sb, "\tConvertPlanted%s\n", sig)
		planted = append(planted, line)
		line++
		for i := 0; i < nAfter; i++ {
			writeValid()
		}
		sb.WriteString("}\n")
		if embedded {
			rec.Class("planted:in-an-interface-that-embeds-a-converter-base")
		}
		m := c14Meta{Setup: sb.String(), PlantedLines: planted, MustReject: true, Methods: k + 1, Note: pl[0]}
		if rapid.IntRange(0, 2).Draw(rt, "withLog") == 0 {
			// the diagnostics on stderr are the same with -log
			m.Args = []string{"-log", pg.SetupPath}
			rec.Class("planted:run-with-log")
		}
		files := c14Files(m.Setup)
		v, class := c14Judge(env, files, m)
		rec.Eval()
		rec.Class("planted:" + class)
		rec.NonTrivial(m.Setup)
		if pl[0] == "conv-two-params" {
			rec.Sample(map[string]any{"planted": pl[0], "setup": m.Setup})
		}
		rec.Report(rt, v, mk(files, m, "planted"))
	})

	// (b) hostile grammar
	genArg := func(rt *rapid.T, kind string) string {
		switch rapid.IntRange(0, 9).Draw(rt, "argKind") {
		case 0, 1, 2:
			return rapid.SampledFrom(c14Hostile).Draw(rt, "hostile")
		case 3, 4:
			if kind == "conv" {
				return rapid.SampledFrom(c14Convs).Draw(rt, "convf")
			}
			return rapid.SampledFrom(c14Hooks).Draw(rt, "hookf")
		case 5:
			return rapid.SampledFrom(c14Convs).Draw(rt, "anyf")
		default:
			return rapid.SampledFrom([]string{"X", "S", "E", "I", "P", "PP", "Err", "Un", "P.X", "Get()", "ErrGet()", "$2", "$3", "arg", "return", "name", "none", "r", "\"lit\"", "1"}).Draw(rt, "valid")
		}
	}
	dstFields := []string{"X", "S", "E", "I", "P", "PP", "Err", "Un", "PE", "P.X", "P.P.X"}
	srcPaths := []string{"X", "S", "E", "I", "P", "PP", "Err", "PE", "P.X", "Get()", "ErrGet()", "Two()", "WithArg()", "Nothing()", "P.Get()", "$1", "$2", "$3", "$0", "$-1", "$1.X", "$2.X", "$9", "$99999999999999999999", "$", "$x", "$1.", "$1..X", "$2.Get()"}
	seps := []string{" ", " ", " ", " ", "  ", "\t", "\u00a0", "\v", "\u2003", "\u3000", "\f"}
	genLine := func(rt *rapid.T) (string, bool) {
		if rapid.IntRange(0, 3).Draw(rt, "validLine") == 0 {
			return rapid.SampledFrom(validNotes).Draw(rt, "vn"), false
		}
		// semi-valid: a known notation whose arguments are mostly well-formed, one of them odd, so that the
		// input gets past the argument-count checks into resolution and code generation
		if rapid.IntRange(0, 1).Draw(rt, "semiValid") == 0 {
			pick := func(valid []string, label string) string {
				if rapid.IntRange(0, 4).Draw(rt, label+"Hostile") == 0 {
					return rapid.SampledFrom(c14Hostile).Draw(rt, label+"H")
				}
				return rapid.SampledFrom(valid).Draw(rt, label)
			}
			sep := rapid.SampledFrom(seps).Draw(rt, "sep")
			var parts []string
			switch rapid.IntRange(0, 5).Draw(rt, "semiKind") {
			case 0:
				parts = []string{":map", pick(srcPaths, "msrc"), pick(dstFields, "mdst")}
			case 1:
				parts = []string{":conv", pick(c14Convs, "cfn"), pick(srcPaths, "csrc")}
				if rapid.Bool().Draw(rt, "cdst") {
					parts = append(parts, pick(dstFields, "cdstf"))
				}
			case 2:
				parts = []string{":literal", pick(dstFields, "ldst"), rapid.SampledFrom([]string{"1", "\"x\"", "nil", "HB{}", "a b c", ")(", "func() {}", "[]int{1}", "1 +", "\"unterminated", "'", "x.y.z", "/*", "*/", "//", "{", "}}"}).Draw(rt, "lit")}
			case 3:
				parts = []string{":skip", rapid.SampledFrom([]string{"X", "x", "/X/", "/^P/", "/./", "//", "/(/", "/\\pL/", "/[a-/", "P.X", "/P\\.X/", "/(?i)x/", "/(?P<n>X)/", "/X{1,2000}/", "/\\C/"}).Draw(rt, "skipPat")}
			case 4:
				parts = []string{":" + rapid.SampledFrom([]string{"preprocess", "postprocess"}).Draw(rt, "hk"), pick(c14Hooks, "hfn")}
			default:
				parts = []string{":recv", rapid.SampledFrom([]string{"r", "x", "dst", "src", "err", "arg0", "_", "1a", "a-b", "ünï", "type", "func", "HA"}).Draw(rt, "rv")}
			}
			// the notation name is followed by an ordinary blank; the odd separator sits between the arguments
			return parts[0] + " " + strings.Join(parts[1:], sep), true
		}
		name := rapid.SampledFrom(c14Notations).Draw(rt, "notation")
		n := rapid.IntRange(0, 4).Draw(rt, "nargs")
		parts := []string{":" + name}
		for i := 0; i < n; i++ {
			parts = append(parts, genArg(rt, name))
		}
		sep := rapid.SampledFrom([]string{" ", " ", " ", "  ", "\t", ""}).Draw(rt, "sep")
		return strings.Join(parts, sep), true
	}
	focus := false
	inner := genLine
	genLine = func(rt *rapid.T) (string, bool) {
		// focused cases: at most one odd line per case, everything else valid, so that the odd line is
		// what reaches name resolution and code generation instead of dying with a neighbour's parse error
		if focus {
			if rapid.IntRange(0, 3).Draw(rt, "focusOdd") != 0 {
				return rapid.SampledFrom(validNotes).Draw(rt, "fvn"), false
			}
			for i := 0; i < 20; i++ {
				if l, h := inner(rt); h {
					return l, h
				}
			}
		}
		return inner(rt)
	}
	rapidRun(t, env, "hostile", env.Pick(6400, 200000), func(rt *rapid.T) {
		var sb strings.Builder
		hostile := false
		methods := 0
		focus = rapid.IntRange(0, 1).Draw(rt, "focus") == 0
		if focus {
			rec.Class("hostile:focused-case")
		}
		switch rapid.IntRange(0, 24).Draw(rt, "fileKind") {
		case 0:
			sb.WriteString("//go:build convergen\n\npackage home\n\ntype Plain interface {\n\tConvertNothing(*HA) *HB\n}\n\nvar x = 1\n")
		case 1:
			sb.WriteString("//go:build convergen\n\npackage home\n\ntype Convergen interface {\n\tConvertBroken(*HA *HB\n}\n")
			hostile = true
		case 4:
			// a setup file that the go command hands over in another shape or not at all: cgo (the compiled file is a
			// generated copy in the build cache), excluded by a further constraint term or by its file name
			switch rapid.IntRange(0, 2).Draw(rt, "notLoadedKind") {
			case 0:
				sb.WriteString("//go:build convergen\n\npackage home\n\n// #include <stdlib.h>\nimport \"C\"\n\ntype Convergen interface {\n\tConvertCgo(*HA) *HB\n}\n")
			case 1:
				sb.WriteString("//go:build convergen && windows && never\n\npackage home\n\ntype Convergen interface {\n\tConvertExcluded(*HA) *HB\n}\n")
			default:
				sb.WriteString("//go:build ignore\n\npackage home\n\ntype Convergen interface {\n\tConvertIgnored(*HA) *HB\n}\n")
			}
			hostile = true
			methods = 1
		case 3:
			// valid: the same method name under different receivers in two (or three) interfaces, with the same receiver
			// variable name - every one of them must get its function
			rv := rapid.SampledFrom([]string{"r", "m", "x"}).Draw(rt, "recvVar")
			rv2 := rv
			if rapid.IntRange(0, 3).Draw(rt, "otherRecvVar") == 0 {
				rv2 = "q"
			}
			sb.WriteString(c14Head)
			fmt.Fprintf(&sb, "type Convergen interface {\n\t// :recv %s\n\tConvertToOther(*HA) *HB\n\tConvertPlain0(*HA) *HB\n}\n\n", rv)
			fmt.Fprintf(&sb, "// :convergen\ntype Second interface {\n\t// :recv %s\n\tConvertToOther(*HB) *HA\n}\n\n", rv2)
			methods = 3
			if rapid.Bool().Draw(rt, "third") {
				fmt.Fprintf(&sb, "// :convergen\ntype Third interface {\n\t// :recv %s\n\tConvertToOther(*HC) *HA\n\tConvertPlain1(*HC) *HB\n}\n\ntype HC struct{ X int }\n\n", rv)
				methods = 5
			}
		case 6:
			// valid: additional arguments whose types reach a self-referential struct (HA.P is a *HA)
			sb.WriteString(c14Head)
			sb.WriteString("type Convergen interface {\n\tConvertPlain0(*HA, *HA) *HB\n\tConvertPlain1(*HA, []map[string]*HA, func(HA) []HA) *HB\n\t// :style arg\n\tConvertPlain2(*HA, HA) *HB\n}\n\n")
			methods = 3
			rec.Class("hostile:additional-arguments-of-self-referential-types")
		case 5:
			// a method whose name an ordinary function of the package already has: generating it gives a package that does
			// not compile (C01's matter) and refusing it is fine, but reporting success without the function is not
			sb.WriteString(c14Head)
			sb.WriteString("type Convergen interface {\n\tConvertPlain0(*HA) *HB\n\tConvertTakenBySibling(*HA) *HB\n}\n\n")
			methods = 2
			rec.Class("hostile:method-named-like-a-function-of-the-package")
		case 2:
			sb.WriteString("//go:build convergen\n\npackage home\n\ntype Convergen struct{}\n\n// :convergen\ntype NotIface int\n\n// :convergen\nfunc ConvertF() {}\n")
			hostile = true
		default:
			sb.WriteString(c14Head)
			nif := rapid.IntRange(1, 2).Draw(rt, "nif")
			for ii := 0; ii < nif; ii++ {
				nl := rapid.IntRange(0, 2).Draw(rt, "ifaceLines")
				for i := 0; i < nl; i++ {
					l, h := genLine(rt)
					hostile = hostile || h
					sb.WriteString("// " + strings.ReplaceAll(l, "\n", " ") + "\n")
				}
				name := "Convergen"
				if ii > 0 {
					sb.WriteString("// :convergen\n")
					name = "Second"
				}
				switch rapid.IntRange(0, 19).Draw(rt, "ifaceKind") {
				case 0:
					fmt.Fprintf(&sb, "type %s interface{}\n\n", name)
					hostile = true
					continue
				case 1:
					fmt.Fprintf(&sb, "type %s interface {\n\tLStringer\n\tConvertEmbedded%d(*HA) *HB\n}\n\n", name, ii)
					hostile = true
					methods++ // the embedded String() method has no Convert prefix; counted separately below
					continue
				}
				fmt.Fprintf(&sb, "type %s interface {\n", name)
				nm := rapid.IntRange(1, 3).Draw(rt, "nmethods")
				for j := 0; j < nm; j++ {
					nl := rapid.IntRange(0, 6).Draw(rt, "methodLines")
					for i := 0; i < nl; i++ {
						l, h := genLine(rt)
						hostile = hostile || h
						sb.WriteString("\t// " + strings.ReplaceAll(l, "\n", " ") + "\n")
					}
					sig := "(*HA) *HB"
					if rapid.IntRange(0, 2).Draw(rt, "oddSig") == 0 && !focus {
						sig = rapid.SampledFrom(c14Methods).Draw(rt, "sig")
						hostile = true
					}
					fmt.Fprintf(&sb, "\tConvert%d_%d%s\n", ii, j, sig)
					methods++
				}
				sb.WriteString("}\n\n")
			}
		}
		m := c14Meta{Setup: sb.String(), Methods: methods}
		files := c14Files(m.Setup)
		v, class := c14Judge(env, files, m)
		rec.Eval()
		rec.Class("hostile:" + class)
		if hostile {
			rec.NonTrivial(m.Setup)
		}
		rec.Sample(m.Setup)
		// an interface that embeds another one contributes the embedded methods too: tolerate by re-judging
		if !v.OK && strings.HasPrefix(v.Fingerprint, "C14|method-dropped") && strings.Contains(m.Setup, "\tLStringer\n") {
			rec.Class("hostile:embedded-interface-method-count-not-judged")
			return
		}
		rec.Report(rt, v, mk(files, m, "hostile"))
	})
	// (c) odd invocations: the same demands (terminates, no crash, a failure comes with a message) for every way of
	// naming input and output on the command line, over a valid and a rejected setup file
	t.Run("odd-invocations", func(t *testing.T) {
		valid := c14Head + "type Convergen interface {\n\t// :typecast\n\tConvertValid(*HA) *HB\n}\n"
		rejected := c14Head + "type Convergen interface {\n\t// :style sideways\n\tConvertRejected(*HA) *HB\n}\n"
		idx := 0
		for si, setup := range []string{valid, rejected} {
			for _, inv := range c14Invocations {
				idx++
				if !mine(env, idx) {
					continue
				}
				m := c14Meta{Setup: setup, Args: inv.Args, Env: inv.Env, Note: inv.Note}
				if m.Args == nil {
					m.Args = []string{}
				}
				files := c14Files(setup).Set("home/adir/keep.txt", "x\n")
				v, class := c14Judge(env, files, m)
				rec.Eval()
				rec.Class("odd-invocation:" + class)
				rec.NonTrivial(fmt.Sprint(si, inv))
				if inv.Note == "output-is-the-setup-file" {
					rec.Sample(map[string]any{"odd_invocation": inv.Note, "args": inv.Args, "env": inv.Env})
				}
				rec.Report(t, v, mk(files, m, "odd-invocation"))
			}
		}
	})
	_ = sort.Strings
}

// c14Invocations: every way of getting the command line wrong (or merely unusual). Paths are relative to the module root.
var c14Invocations = []struct {
	Note string
	Args []string
	Env  []string
}{
	{"output-is-the-setup-file", []string{"-out", "home/setup.go", "home/setup.go"}, nil},
	{"output-is-the-setup-file-dry", []string{"-dry", "-print", "-out", "home/setup.go", "home/setup.go"}, nil},
	{"output-is-the-setup-file-other-spelling", []string{"-out", "home/../home/./setup.go", "home/setup.go"}, nil},
	{"output-is-the-setup-file-with-log", []string{"-log", "-out", "home/setup.go", "home/setup.go"}, nil},
	{"output-is-a-directory", []string{"-out", "home/adir", "home/setup.go"}, nil},
	{"output-is-the-package-directory", []string{"-out", "home", "home/setup.go"}, nil},
	{"output-below-a-file", []string{"-out", "home/zoo.go/out.go", "home/setup.go"}, nil},
	{"output-in-missing-directory-with-log", []string{"-log", "-out", "no/such/dir/out.go", "home/setup.go"}, nil},
	{"output-is-dev-full", []string{"-out", "/dev/full", "home/setup.go"}, nil},
	{"output-is-dev-null", []string{"-out", "/dev/null", "home/setup.go"}, nil},
	{"output-ends-in-log-with-log", []string{"-log", "-out", "home/x.log", "home/setup.go"}, nil},
	{"output-is-a-sibling-source-file", []string{"-dry", "-out", "home/zoo.go", "home/setup.go"}, nil},
	{"output-empty-string", []string{"-out", "", "home/setup.go"}, nil},
	{"input-is-a-directory", []string{"home"}, nil},
	{"input-is-a-directory-with-slash", []string{"home/"}, nil},
	{"input-is-the-module-root", []string{"."}, nil},
	{"input-missing", []string{"no/such/setup.go"}, nil},
	{"input-is-go-mod", []string{"go.mod"}, nil},
	{"input-is-a-text-file", []string{"home/adir/keep.txt"}, nil},
	{"input-is-an-ordinary-file-of-the-package", []string{"home/zoo.go"}, nil},
	{"input-is-a-file-of-another-package", []string{"ext/ext.go"}, nil},
	{"input-without-extension-missing", []string{"home/setup"}, nil},
	{"input-empty-string", []string{""}, nil},
	{"two-inputs", []string{"home/setup.go", "home/zoo.go"}, nil},
	{"flags-after-the-input", []string{"home/setup.go", "-dry"}, nil},
	{"unknown-flag", []string{"-nosuchflag", "home/setup.go"}, nil},
	{"flag-missing-its-value", []string{"home/setup.go", "-out"}, nil},
	{"out-flag-last", []string{"-out"}, nil},
	{"help", []string{"-h"}, nil},
	{"gofile-missing-file", nil, []string{"GOFILE=no_such.go"}},
	{"gofile-is-a-directory", nil, []string{"GOFILE=home"}},
	{"gofile-empty", nil, []string{"GOFILE="}},
	{"gofile-with-goline-gopackage", []string{"-dry"}, []string{"GOFILE=home/setup.go", "GOLINE=3", "GOPACKAGE=home", "GOARCH=amd64", "GOOS=linux"}},
	{"gofile-absolute-missing", nil, []string{"GOFILE=/no/such/dir/setup.go"}},
	{"all-flags-no-input", []string{"-dry", "-print", "-log"}, nil},
}
