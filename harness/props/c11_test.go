package props

import (
	"encoding/json"
	"fmt"
	"go/parser"
	"go/token"
	"regexp"
	"sort"
	"strings"
	"testing"

	"pgregory.net/rapid"
	"verif/hx"
	"verif/pg"
)

// ---------------------------------------------------------------------------------------------
// C11 - the rest of the setup file is carried over intact.
// C17 - exactly the marked interfaces of the input file are converted.
// Both use Engine L (pg/layout.go); the judge below serves both with different generators.
// ---------------------------------------------------------------------------------------------

type layoutMeta struct {
	File      pg.LFile          `json:"file"`
	Siblings  map[string]string `json:"siblings,omitempty"` // extra files of the package (name -> text)
	WantUsed  []string          `json:"want_imports"`       // import paths the output must have (exactly)
	Property  string            `json:"property"`
	NoConvert bool              `json:"no_converter"`
}

var (
	reNotationLine = regexp.MustCompile(`^//\s*:(\S+)`)
	reConstraint   = regexp.MustCompile(`(?m)^\s*//\s*(go:build\s+convergen|\+build\s+convergen|go:generate)\b`)
)

func layoutFiles(m layoutMeta) hx.Files {
	files := (&pg.Prog{}).Files().Set(pg.SetupPath, m.File.Render())
	for _, n := range pg.SortedKeys(m.Siblings) {
		files = files.Set(n, m.Siblings[n])
	}
	return files
}

func outputImports(src string) ([]string, error) {
	fset := token.NewFileSet()
	f, err := parser.ParseFile(fset, "out.go", src, parser.ImportsOnly)
	if err != nil {
		return nil, err
	}
	var out []string
	for _, im := range f.Imports {
		out = append(out, strings.Trim(im.Path.Value, `"`))
	}
	sort.Strings(out)
	return out, nil
}

// layoutJudge runs convergen over the layout file and checks carry-over (C11) and selection (C17).
func layoutJudge(env *hx.Env, m layoutMeta) (hx.Verdict, string) {
	P := m.Property
	files := layoutFiles(m)
	dir := env.Scratch("lay")
	_ = dir
	o, err := pg.RunModule(env, files)
	if err != nil {
		return hx.Failf("harness|io", "%v", err), "harness"
	}
	defer o.Cleanup()
	if o.Res.TimedOut {
		return hx.Verdict{OK: true, Inconclusive: true}, "timeout"
	}
	convs := m.File.Converters()
	if len(convs) == 0 {
		// C17: a file with no converter interface is rejected
		if o.Res.Exit == 0 {
			return hx.Failf(P+"|no-converter-accepted", "a file without converter interface is accepted\n%s\n--- output ---\n%s", m.File.Render(), o.Out), "no-converter-accepted"
		}
		if o.Res.Crashed() {
			return hx.Failf(P+"|no-converter-crash", "%s", tail(o.Res.Stderr, 800)), "crash"
		}
		return hx.Pass, "no-converter-rejected"
	}
	if m.File.EmbedsConverter() && o.Res.Exit != 0 {
		// a converter interface that embeds another converter interface: the embedded methods belong to both, and no Go
		// file can hold two functions of one name - refusing the file is the only sound answer (C01)
		if o.Res.Crashed() || strings.TrimSpace(o.Res.Stderr) == "" {
			return hx.Failf(P+"|embedded-converter-crash-or-silent", "%s", tail(o.Res.Stderr, 800)), "crash"
		}
		return hx.Pass, "embedded-converter-rejected"
	}
	if o.Res.Exit != 0 || !o.HasOut {
		return hx.Failf(P+"|rejected|"+pg.NormalizeCompilerMsg(stripPos(lastLine(o.Res.Stderr))), "well-formed layout rejected (exit %d)\n%s\n--- setup ---\n%s", o.Res.Exit, tail(o.Res.Stderr, 800), m.File.Render()), "rejected"
	}
	blockOf := m.File.WantFuncKeys()
	rest, found, err := pg.CutGenerated(o.Out, blockOf)
	if err != nil {
		return hx.Failf(P+"|output-unparsable", "%v\n%s", err, o.Out), "unparsable"
	}
	// every expected function exactly once; nothing else new
	gotKeys, _ := funcKeys(o.Out)
	cnt := map[string]int{}
	for _, g := range found {
		cnt[g.Key]++
	}
	for k := range blockOf {
		if cnt[k] != 1 {
			return hx.Failf(P+"|generated-function-count", "function %s appears %d times in the output\n--- setup ---\n%s\n--- output ---\n%s", k, cnt[k], m.File.Render(), o.Out), "function-count"
		}
	}
	// functions that exist in the output but neither in the setup file nor expected (C17: nothing else new)
	setupKeys, _ := funcKeys(m.File.Render())
	known := map[string]bool{}
	for _, k := range setupKeys {
		known[k] = true
	}
	for _, k := range gotKeys {
		if _, gen := blockOf[k]; !gen && !known[k] {
			return hx.Failf(P+"|unexpected-function", "function %s is in the output but belongs to no converter interface of the input file\n--- setup ---\n%s\n--- output ---\n%s", k, m.File.Render(), o.Out), "unexpected-function"
		}
	}
	// token-sequence comparison of everything else
	want, err1 := pg.Tokens(pg.Gofmt(m.File.Skeleton()))
	got, err2 := pg.Tokens(pg.Gofmt(rest))
	if err1 != nil || err2 != nil {
		return hx.Failf("harness|tokenise", "%v %v", err1, err2), "harness"
	}
	if d := pg.DiffTokens(want, got); d != "" {
		cls := "carry-over"
		if len(m.File.PkgDoc) > 0 {
			cls += "+pkgdoc"
		}
		return hx.Failf(P+"|tokens-differ|"+cls, "%s\n--- setup ---\n%s\n--- output ---\n%s", d, m.File.Render(), o.Out), "tokens-differ"
	}
	// carried-over comments must still be attached to their declarations
	wantDocs, err1 := pg.DocAttachments(pg.Gofmt(m.File.Skeleton()))
	gotDocs, err2 := pg.DocAttachments(pg.Gofmt(rest))
	if err1 == nil && err2 == nil {
		for _, k := range pg.SortedKeys(wantDocs) {
			if strings.Contains(k, "_generated_block_") {
				continue
			}
			if gotDocs[k] != wantDocs[k] {
				cls := "doc"
				// known construct: a directive (go:generate) is the LAST line of the doc comment; removing it
				// leaves a one-line gap, so the remaining comment is printed detached from its declaration
				if k == "package" && m.File.GoGenerateAtPackage && len(m.File.PkgDoc) > 0 {
					cls = "directive-last-line-of-doc-comment"
				}
				for _, it := range m.File.Items {
					if it.Kind == "decl" && strings.Contains(it.Text, "//go:generate") && !strings.Contains(it.Text, "`") && len(it.Names) > 0 && strings.HasSuffix(k, " "+it.Names[0]) {
						lines := strings.Split(strings.TrimSpace(it.Text), "\n")
						for i, ln := range lines {
							if strings.HasPrefix(ln, "//go:generate") && i+1 < len(lines) && !strings.HasPrefix(lines[i+1], "//") {
								cls = "directive-last-line-of-doc-comment"
							}
						}
					}
				}
				return hx.Failf(P+"|comment-detached-from-its-declaration|"+cls, "the comment attached to %q is %q in the setup file but %q in the output\n--- setup ---\n%s\n--- output ---\n%s", k, wantDocs[k], gotDocs[k], m.File.Render(), o.Out), "comment-detached"
			}
		}
	}
	// doc comments of generated functions = the non-notation lines of the method comment
	docOf := map[string][]string{}
	for _, g := range found {
		docOf[g.Key] = g.Doc
	}
	for _, it := range convs {
		for _, mm := range it.Methods {
			var wantDoc []string
			for _, l := range mm.Lines {
				if l.Block != "" {
					wantDoc = append(wantDoc, l.Block)
				} else if !l.Notation && !l.Directive {
					wantDoc = append(wantDoc, "// "+l.Text)
				}
			}
			// gofmt decides the final shape of a doc comment (block comments are re-indented); the output went through it
			wantDoc = pg.NormaliseDoc(wantDoc)
			gotDoc := pg.NormaliseDoc(docOf[mm.RecvType+"."+mm.Name])
			if strings.Join(wantDoc, "\n") != strings.Join(gotDoc, "\n") {
				cls := "doc"
				if len(m.File.PkgDoc) > 0 && len(wantDoc) == 0 {
					cls = "doc:pkgdoc-on-commentless-method"
				}
				if strings.Contains(strings.Join(gotDoc, "\n"), "go:generate") {
					cls = "directive-in-method-comment"
				}
				return hx.Failf(P+"|function-doc-differs|"+cls, "doc comment of %s: want %q, got %q\n--- setup ---\n%s\n--- output ---\n%s", mm.Name, wantDoc, gotDoc, m.File.Render(), o.Out), "doc-differs"
			}
		}
	}
	// nothing of the generator's own syntax survives
	// (judged on the comments of the output: a line of a raw string literal that looks like a directive is data)
	if outToks, err := pg.Tokens(o.Out); err == nil {
		for _, tk := range outToks {
			if tk.Tok != token.COMMENT {
				continue
			}
			if loc := reConstraint.FindString(tk.Lit); loc != "" {
				return hx.Failf(P+"|constraint-or-generate-line-survives", "%q is still in the output\n%s", strings.TrimSpace(loc), o.Out), "constraint-survives"
			}
		}
	}
	notes := map[string]bool{}
	for _, it := range convs {
		for _, l := range it.Doc {
			if l.Notation {
				notes["// "+l.Text] = true
			}
		}
		for _, mm := range it.Methods {
			for _, l := range mm.Lines {
				if l.Notation {
					notes["// "+l.Text] = true
				}
			}
		}
	}
	plainTexts := m.File.Skeleton()
	for _, ln := range strings.Split(o.Out, "\n") {
		t := strings.TrimSpace(ln)
		if notes[t] && !strings.Contains(plainTexts, t) {
			return hx.Failf(P+"|notation-line-survives", "notation line %q is still in the output\n%s", t, o.Out), "notation-survives"
		}
	}
	// imports: kept unless unused, nothing else
	gotImps, err := outputImports(o.Out)
	if err != nil {
		return hx.Failf(P+"|output-unparsable", "%v", err), "unparsable"
	}
	wantImps := append([]string{}, m.WantUsed...)
	sort.Strings(wantImps)
	if fmt.Sprint(gotImps) != fmt.Sprint(wantImps) {
		return hx.Failf(P+"|imports-differ", "imports of the output %v, expected %v\n--- setup ---\n%s\n--- output ---\n%s", gotImps, wantImps, m.File.Render(), o.Out), "imports-differ"
	}
	// the file belongs to the ordinary build and compiles there (T16)
	if ok, _, raw := pg.Build(o.Dir); !ok {
		if raw == pg.BuildTimeout {
			return hx.Verdict{OK: true, Inconclusive: true}, "build-timeout"
		}
		return hx.Failf(P+"|does-not-build", "%s\n--- output ---\n%s", raw, o.Out), "does-not-build"
	}
	// sibling files untouched (C17 / C15)
	for _, n := range pg.SortedKeys(m.Siblings) {
		if hx.ReadFileOr(o.Dir+"/"+n, "\x00") != m.Siblings[n] {
			return hx.Failf(P+"|sibling-modified", "sibling file %s was modified", n), "sibling-modified"
		}
	}
	return hx.Pass, "ok"
}

// addImportItems gives the layout file imports: one used by a carried-over declaration, one unused.
func addImportItems(t *rapid.T, f *pg.LFile, m *layoutMeta) {
	switch rapid.IntRange(0, 3).Draw(t, "imports") {
	case 0:
	case 1: // used import
		f.Imports = append(f.Imports, pg.Import{Path: pg.ModulePath + "/ext"})
		f.Items = append(f.Items, pg.LItem{Kind: "decl", Text: "// UsesExt keeps the import alive.\nvar UsesExt ext.MyInt = 1", Names: []string{"UsesExt"}})
		m.WantUsed = append(m.WantUsed, pg.ModulePath+"/ext")
	case 2: // unused import (becomes unused in the output too): must be removed
		f.Imports = append(f.Imports, pg.Import{Path: pg.ModulePath + "/odd-dir"})
	case 3: // both, aliased
		f.Imports = append(f.Imports, pg.Import{Name: "am", Path: pg.ModulePath + "/a/model"}, pg.Import{Path: pg.ModulePath + "/lib/v2"})
		f.Items = append([]pg.LItem{{Kind: "decl", Text: "var UsesAlias am.AInt", Names: []string{"UsesAlias"}}}, f.Items...)
		m.WantUsed = append(m.WantUsed, pg.ModulePath+"/a/model")
	}
}

func layoutClasses(rec *hx.Recorder, f *pg.LFile) []string {
	var cls []string
	add := func(c string) { cls = append(cls, c); rec.Class("layout:" + c) }
	if len(f.PkgDoc) > 0 {
		add("package-doc")
	}
	if f.OldTag {
		add("+build-line")
	}
	if len(f.Header) > 0 {
		add("comment-sharing-the-group-of-the-build-constraint")
	}
	if f.GoGenerateAtPackage {
		add("go:generate-as-package-doc")
	}
	for _, it := range f.Items {
		if it.Kind == "decl" && strings.Contains(it.Text, "//go:generate") {
			add("go:generate-inside-a-doc-comment")
		}
	}
	nconv := len(f.Converters())
	add(fmt.Sprintf("converters=%d", nconv))
	for i, it := range f.Items {
		switch it.Kind {
		case "comment":
			if i+1 < len(f.Items) && f.Items[i+1].Kind == "iface" || i > 0 && f.Items[i-1].Kind == "iface" {
				add("free-comment-adjacent-to-interface")
			}
			if strings.HasPrefix(it.Text, "/*") {
				add("block-comment")
			}
		case "iface":
			if !it.Iface.Converter {
				add("plain-interface")
				continue
			}
			hasDoc := false
			for _, l := range it.Iface.Doc {
				if !l.Notation {
					hasDoc = true
				}
			}
			if !hasDoc {
				add("converter-without-doc-text")
			}
			for _, m := range it.Iface.Methods {
				if len(m.Lines) == 0 {
					add("comment-less-method")
				}
				if m.Trailing != "" {
					add("method-trailing-comment")
				}
				if m.Recv != "" {
					add("method-with-receiver")
				}
			}
		}
	}
	return cls
}

func runLayoutProperty(t *testing.T, id, rule string, quick, thorough int, gen func(*rapid.T) layoutMeta, nontrivial func(layoutMeta, []string) bool) {
	env, rec := start(t, id, "exploration", rule)
	defer rec.Done()
	needBin(t, env)
	rec.Assume("T14: notation-looking comment lines inside unmarked interfaces are carried over; T15: both sides pass through gofmt; T21: import declarations are compared as a set")
	judgeCase := func(c *hx.Case) hx.Verdict {
		var m layoutMeta
		if err := json.Unmarshal(c.Meta, &m); err != nil {
			return hx.Failf("harness|bad-meta", "%v", err)
		}
		m.Property = id
		v, _ := layoutJudge(env, m)
		return v
	}
	if env.Replay != "" {
		c, err := hx.LoadCase(env.Replay)
		if err != nil {
			t.Fatal(err)
		}
		rec.Eval()
		rec.Report(t, judgeCase(c), c)
		return
	}
	rec.ReplayTier(judgeCase)
	rapidRun(t, env, "layouts", env.Pick(quick, thorough), func(rt *rapid.T) {
		m := gen(rt)
		m.Property = id
		v, class := layoutJudge(env, m)
		rec.Eval()
		rec.Class("outcome:" + class)
		cls := layoutClasses(rec, &m.File)
		if nontrivial(m, cls) {
			rec.NonTrivial(m.File.Render() + fmt.Sprint(m.Siblings))
		}
		rec.Sample(m.File.Render())
		mb, _ := json.Marshal(m)
		rec.Report(rt, v, &hx.Case{Kind: "layout", Meta: mb, Files: layoutFiles(m)})
	})
}

func TestC11(t *testing.T) {
	runLayoutProperty(t, "C11",
		"rapid-generated setup files in Engine L's item model: package doc, both build-constraint spellings, used/unused/aliased imports, 0-8 carried-over items (structs with doc/trailing/interior comments, aliases, consts, vars, groups, funcs with block comments, methods, init, plain interfaces, free-floating line and block comments) around 1-3 converter interfaces "+
			"(named Convergen or marked, go:generate lines, interface-level notations, methods with doc lines interleaved with notation lines, trailing comments, blank lines). "+
			"Oracle: the output with each block of generated functions replaced by a placeholder must have the same comment-preserving token sequence as the setup file with converter interfaces replaced by the placeholder (gofmt on both sides); "+
			"function doc comments = the non-notation lines of the method comment; no build constraint / go:generate / converter notation line survives; imports = exactly the used ones; the package builds without tags. "+
			"Non-trivial: layout with a package doc, a free-floating comment adjacent to an interface, a comment-less method, a block comment or >= 2 converter interfaces; distinct by setup text.",
		2400, 40000,
		func(rt *rapid.T) layoutMeta {
			f := pg.GenLayoutFile(rt, pg.LayoutProfile{MaxItems: 8, MaxConverters: 3, Comments: true, Unmarked: true, Directives: true, SameNames: true})
			m := layoutMeta{}
			addImportItems(rt, f, &m)
			m.File = *f
			return m
		},
		func(m layoutMeta, cls []string) bool {
			for _, c := range cls {
				switch c {
				case "package-doc", "free-comment-adjacent-to-interface", "comment-less-method", "block-comment", "converters=2", "converters=3":
					return true
				}
			}
			return false
		})
}
