package props

import (
	"encoding/json"
	"fmt"
	"os"
	"path/filepath"
	"strings"
	"testing"

	"pgregory.net/rapid"
	"verif/hx"
	"verif/pg"
)

// ---------------------------------------------------------------------------------------------
// C18 - CLI contract: default output path, -out, -dry, -print, -log, GOFILE.
// Oracle: the harness computes the expected output/log paths from the documented rule, the bytes of a
// plain run of the same input are the reference for every flag combination.
// ---------------------------------------------------------------------------------------------

type c18Meta struct {
	Scenario cliScenario `json:"scenario"`
	Baseline string      `json:"baseline"` // bytes a plain run writes
}

var c18Spellings = []string{"rel-root", "abs", "dot-rel", "pkg-dir", "gofile-only", "gofile-and-arg", "gofile-pkg-dir", "abs-outside", "gofile-abs-outside"}

func c18Judge(env *hx.Env, files hx.Files, m c18Meta) hx.Verdict {
	sc := m.Scenario
	r, err := execScenario(env, files, sc, m.Baseline)
	if err != nil {
		return hx.Failf("harness|io", "%v", err)
	}
	defer r.cleanup()
	cls := "cli:" + sc.flags() + ":" + sc.Spelling
	if r.Res.TimedOut {
		return hx.Verdict{OK: true, Inconclusive: true}
	}
	if r.Res.Exit != 0 {
		return hx.Failf("C18|exit-status|"+flagClass(sc), "%s: accepted input exits %d\nargs %v env %v\nstderr: %s", cls, r.Res.Exit, r.Args, r.Env, tail(r.Res.Stderr, 800))
	}
	outBytes, outErr := os.ReadFile(r.OutAbs)
	if sc.Dry {
		if outErr == nil {
			return hx.Failf("C18|dry-wrote-output|"+flagClass(sc), "%s: -dry wrote %s", cls, r.rel(r.OutAbs))
		}
	} else {
		if outErr != nil {
			return hx.Failf("C18|output-missing|"+flagClass(sc)+"|"+sc.Spelling, "%s: no output at the expected path %s (args %v, env %v, cwd %s); tree changes: %v",
				cls, r.rel(r.OutAbs), r.Args, r.Env, r.rel(r.Cwd), diffList(r))
		}
		if sc.OutKind != "nested-dir" && string(outBytes) != m.Baseline {
			return hx.Failf("C18|output-bytes-differ|"+flagClass(sc), "%s: bytes at %s differ from a plain run\n--- got ---\n%s\n--- want ---\n%s", cls, r.rel(r.OutAbs), outBytes, m.Baseline)
		}
	}
	if sc.OutKind != "" {
		def := filepath.Join(r.Root, filepath.FromSlash(insertGen(sc.Input)))
		if hx.Exists(def) {
			return hx.Failf("C18|default-path-written-despite-out|"+flagClass(sc), "%s: -out given but %s exists", cls, r.rel(def))
		}
	}
	if sc.Print {
		if r.Res.Stdout != m.Baseline && r.Res.Stdout != m.Baseline+"\n" {
			return hx.Failf("C18|print-stdout-differs|"+flagClass(sc), "%s: -print: stdout (%d bytes) is not the generated code (%d bytes)\n--- stdout ---\n%s", cls, len(r.Res.Stdout), len(m.Baseline), tail(r.Res.Stdout, 600))
		}
	} else if r.Res.Stdout != "" {
		return hx.Failf("C18|stdout-without-print|"+flagClass(sc), "%s: stdout not empty without -print:\n%s", cls, tail(r.Res.Stdout, 600))
	}
	if r.LogAbs == "" {
		// the documented log path is the output path itself: the log must be some other *.log file next to it
		if n := len(r.otherLogs()); sc.Log && n == 0 {
			return hx.Failf("C18|log-missing|"+flagClass(sc), "%s: -log: no log file next to %s; tree changes: %v", cls, r.rel(r.OutAbs), diffList(r))
		} else if !sc.Log && n > 0 {
			return hx.Failf("C18|log-without-flag|"+flagClass(sc), "%s: log written without -log", cls)
		}
	} else if sc.Log {
		if !hx.Exists(r.LogAbs) {
			return hx.Failf("C18|log-missing|"+flagClass(sc), "%s: -log: no log at %s; tree changes: %v", cls, r.rel(r.LogAbs), diffList(r))
		}
	} else if hx.Exists(r.LogAbs) {
		return hx.Failf("C18|log-without-flag|"+flagClass(sc), "%s: log written without -log", cls)
	}
	return hx.Pass
}

func flagClass(sc cliScenario) string {
	f := sc.flags()
	if f == "" {
		return "no-flags"
	}
	return f
}

func diffList(r *cliRun) []string {
	c, d, m := r.Before.Diff(r.After)
	var out []string
	for _, p := range c {
		out = append(out, "+"+p)
	}
	for _, p := range d {
		out = append(out, "-"+p)
	}
	for _, p := range m {
		out = append(out, "~"+p)
	}
	return out
}

// plainBaseline runs the input without flags and returns the bytes written (ok=false when rejected).
func plainBaseline(env *hx.Env, files hx.Files, input string) (string, bool, *cliRun) {
	r, err := execScenario(env, files, cliScenario{Input: input, Spelling: "rel-root", Pre: "absent"}, "")
	if err != nil {
		return "", false, nil
	}
	defer r.cleanup()
	if r.Res.Exit != 0 {
		return "", false, r
	}
	b, err := os.ReadFile(r.OutAbs)
	if err != nil {
		return "", false, r
	}
	return string(b), true, r
}

func TestC18(t *testing.T) {
	env, rec := start(t, "C18", "exploration",
		"for each accepted input (rapid-generated Engine P programs, also under a differently named setup file and a directory with dots): complete enumeration of the 2^4 flag sets {-out,-dry,-print,-log} x 7 input spellings "+
			"{relative from module root, absolute, ./relative, bare name from the package directory, GOFILE only (both cwds), GOFILE set to a bogus value plus argument}, plus -out variants (absolute, nested existing directory, relative to another working directory, a name ending in .log, names whose stem ends in g / o / ., without extension, with a four-letter extension) and output paths that already hold something (other content, identical content, broken Go, a longer earlier result), and the no-input case. "+
			"Oracle: expected paths computed from the documented rule; bytes of a plain run are the reference; stdout equals the code (optionally one extra newline) with -print and is empty without. "+
			"Non-trivial: any flag set other than the empty one or any spelling other than relative-from-root; combinations are distinct by construction per input.")
	defer rec.Done()
	needBin(t, env)
	rec.Assume("T5: with -print stdout may carry one extra trailing newline")

	judgeCase := func(c *hx.Case) hx.Verdict {
		var m c18Meta
		if err := json.Unmarshal(c.Meta, &m); err != nil {
			return hx.Failf("harness|bad-meta", "%v", err)
		}
		return c18Judge(env, c.Files, m)
	}
	if env.Replay != "" {
		c, err := hx.LoadCase(env.Replay)
		if err != nil {
			t.Fatal(err)
		}
		rec.Eval()
		rec.Report(t, judgeCase(c), c)
		return
	}
	rec.ReplayTier(judgeCase)

	// no input at all: usage and non-zero exit
	if env.Shard == 0 {
		dir := env.Scratch("noinput")
		r := hx.Run(env.Bin, hx.RunOpts{Dir: dir})
		rec.Eval()
		rec.NonTrivialDistinctN(1)
		if r.Exit == 0 || !strings.Contains(r.Stderr, "Usage") {
			rec.Report(t, hx.Failf("C18|no-input", "no input: exit %d, stderr %q", r.Exit, r.Stderr), &hx.Case{Kind: "no-input"})
		}
		_ = os.RemoveAll(dir)
	}

	rapidRun(t, env, "inputs", env.Pick(32, 320), func(rt *rapid.T) {
		p := genSmallProg(rt)
		files := p.Files()
		input := pg.SetupPath
		// layout of the input path: default name, another name with several dots, a directory with dots
		switch rapid.IntRange(0, 5).Draw(rt, "inputName") {
		case 4, 5:
			// a stem that ends in a character of the extension (".", "g", "o")
			name := rapid.SampledFrom([]string{"home/dto.go", "home/catalog.go", "home/x..go", "home/go.go", "home/setup.gen.go.go"}).Draw(rt, "oddStem")
			setup, _ := files.Get(pg.SetupPath)
			files = removeFile(files, pg.SetupPath).Set(name, setup)
			input = name
		case 1:
			setup, _ := files.Get(pg.SetupPath)
			files = removeFile(files, pg.SetupPath).Set("home/conv.setup.v2.go", setup)
			input = "home/conv.setup.v2.go"
		case 2:
			// move the whole package into a directory whose name contains dots
			var moved hx.Files
			for _, f := range files {
				if strings.HasPrefix(f.Name, "home/") {
					f.Name = "pkgs.v1.2/home/" + strings.TrimPrefix(f.Name, "home/")
				}
				moved = append(moved, f)
			}
			files = moved
			input = "pkgs.v1.2/home/setup.go"
		}
		base, ok, br := plainBaseline(env, files, input)
		if !ok {
			if br != nil && br.Res.Exit == 0 {
				// exit 0 but nothing at the documented default path
				m := c18Meta{Scenario: cliScenario{Input: input, Spelling: "rel-root", Pre: "absent"}}
				mb, _ := json.Marshal(m)
				rec.Eval()
				rec.Report(rt, hx.Failf("C18|output-missing|no-flags|rel-root", "plain run of %s exits 0 but there is no output at %s; tree changes: %v", input, insertGen(input), diffList(br)), &hx.Case{Kind: "cli", Meta: mb, Files: files})
			}
			rec.Class("input-not-accepted")
			return
		}
		rec.Class("inputs")
		rec.Class("input-name:" + filepath.Base(input))
		for _, sp := range c18Spellings {
			for mask := 0; mask < 16; mask++ {
				sc := cliScenario{Input: input, Spelling: sp, Dry: mask&1 != 0, Print: mask&2 != 0, Log: mask&4 != 0, Pre: "absent"}
				if mask&8 != 0 {
					sc.OutKind = "same-dir"
				}
				m := c18Meta{Scenario: sc, Baseline: base}
				v := c18Judge(env, files, m)
				rec.Eval()
				if mask != 0 || sp != "rel-root" {
					rec.NonTrivialDistinctN(1)
				}
				rec.Class("spelling:" + sp)
				if mask == 5 && sp == "abs" {
					rec.Sample(map[string]any{"scenario": sc, "setup_interfaces": progSummary(p)})
				}
				mb, _ := json.Marshal(m)
				if !rec.Report(rt, v, &hx.Case{Kind: "cli", Meta: mb, Files: files}) {
					continue
				}
			}
		}
		// further -out targets, and outputs that replace something: whatever the path held before, the file holds exactly
		// the code afterwards (and stdout the same code with -print)
		for _, ok := range []string{"abs", "nested-dir", "cwd", "cwd", "log-ext", "log-ext", "", "same-dir", "odd-stem-g", "odd-stem-o", "odd-stem-dot", "no-ext", "long-ext"} {
			for _, dry := range []bool{false, true} {
				sc := cliScenario{Input: input, Spelling: rapid.SampledFrom(c18Spellings).Draw(rt, "sp"), OutKind: ok, Dry: dry, Print: rapid.Bool().Draw(rt, "print"), Log: rapid.Bool().Draw(rt, "log"), Pre: "absent"}
				if !dry && (ok == "" || ok == "same-dir" || ok == "abs") {
					sc.Pre = rapid.SampledFrom([]string{"other", "identical", "stale-broken", "longer", "longer"}).Draw(rt, "pre")
					rec.Class("pre:" + sc.Pre)
				}
				m := c18Meta{Scenario: sc, Baseline: base}
				v := c18Judge(env, files, m)
				rec.Eval()
				rec.NonTrivial(fmt.Sprint(sc, progSummary(p)))
				rec.Class("out:" + ok)
				mb, _ := json.Marshal(m)
				rec.Report(rt, v, &hx.Case{Kind: "cli", Meta: mb, Files: files})
			}
		}
	})
	rec.SetExhaustive(true)
}

func removeFile(fs hx.Files, name string) hx.Files {
	var out hx.Files
	for _, f := range fs {
		if f.Name != name {
			out = append(out, f)
		}
	}
	return out
}
