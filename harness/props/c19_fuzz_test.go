package props

import (
	"encoding/json"
	"os"
	"testing"
	"unicode/utf8"

	"verif/hx"
)

// FuzzC19 is the native coverage-guided target for the matchers (thorough tier; bin/check runs it with
// `go test -fuzz`). Same oracle as TestC19: one pattern, the rule the matcher is created with, and two
// queries with their own rules (so that a case switch is part of the input).
func FuzzC19(f *testing.F) {
	for _, s := range []struct {
		p, a, b string
		c, x, y bool
	}{
		{"Field", "field", "Field", true, false, true}, {"/Field/", "aField", "field", true, true, false}, {"/\\W/", "a", ".", false, false, true},
		{"ſ", "s", "S", false, false, true}, {"/\\pL+/", "A.b", "1", true, false, true}, {"/(?i)a/", "A", "a", true, true, true}, {"/[^a-z]/", "A", "a", false, false, false},
		{"/\\x41\\Qa.B\\E/", "Aa.B", "aa.b", true, true, false}, {"model.Pet.Name", "model.Pet.name", "model_Pet_Name", false, false, false}, {"/", "/", "", true, true, false},
		{"K", "k", "K", false, false, true}, {"/^İ$/", "i", "İ", false, false, true},
	} {
		f.Add(s.p, s.a, s.b, s.c, s.x, s.y)
	}
	known := hx.LoadFindings(os.Getenv("VERIF_DIR"))
	f.Fuzz(func(t *testing.T, pattern, a, b string, create, ea, eb bool) {
		if !utf8.ValidString(pattern) || !utf8.ValidString(a) || !utf8.ValidString(b) || len(pattern) > 64 || len(a) > 64 || len(b) > 64 {
			t.Skip()
		}
		for _, r := range pattern + a + b {
			if r == ' ' || r == '\t' || r == '\n' || r == '\r' || r == '\v' || r == '\f' || r == 0x85 || r == 0xa0 {
				t.Skip() // a notation argument cannot carry white space
			}
		}
		m := c19Meta{API: "pattern", Pattern: pattern, Create: create, Queries: []c19Query{{a, ea}, {b, eb}, {a, eb}}}
		v := c19Judge(m)
		if v.OK {
			return
		}
		for _, k := range known {
			if k.Property == "C19" && k.Status == "open" && k.Fingerprint == v.Fingerprint {
				return
			}
		}
		j, _ := json.Marshal(m)
		t.Fatalf("VIOLATION C19 [%s]: %s\ncase: %s", v.Fingerprint, v.What, j)
	})
}
