package props

import (
	"encoding/json"
	"fmt"
	"os"
	"path/filepath"
	"regexp"
	"strings"
	"testing"
	"time"

	"pgregory.net/rapid"
	"verif/hx"
	"verif/pg"
)

// ---------------------------------------------------------------------------------------------
// C13 - output is a deterministic function of the sources and flags.
// Oracle: N fresh processes over the same tree (output removed before each run) with varied cwd, path
// spelling, TZ, LANG, TMPDIR, GOMAXPROCS, HOME-independent settings: identical bytes, exit status, stderr.
// ---------------------------------------------------------------------------------------------

type c13Meta struct {
	Runs int `json:"runs"`
}

type c13Obs struct {
	Exit   int
	Out    string
	HasOut bool
	Stderr string // canonicalised for path spelling
	Raw    string
	Stdout string
	Config string
}

var reSetupPath = regexp.MustCompile(`[^\s:]*setup(\.gen)?\.go`)

func canonStderr(s string) string {
	return reSetupPath.ReplaceAllStringFunc(s, func(m string) string {
		if strings.HasSuffix(m, "setup.gen.go") {
			return "<out>"
		}
		return "<setup>"
	})
}

func c13Judge(env *hx.Env, files hx.Files, runs int) (hx.Verdict, int) {
	root := env.Scratch("det")
	defer os.RemoveAll(root)
	if err := hx.WriteTree(root, files); err != nil {
		return hx.Failf("harness|io", "%v", err), 0
	}
	other := env.Scratch("elsewhere")
	defer os.RemoveAll(other)
	tmp2 := env.Scratch("tmp2")
	defer os.RemoveAll(tmp2)
	inputAbs := filepath.Join(root, filepath.FromSlash(pg.SetupPath))
	outAbs := filepath.Join(root, filepath.FromSlash(pg.OutPath))
	var first *c13Obs
	bySpelling := map[string]*c13Obs{}
	done := 0
	for i := 0; i < runs; i++ {
		if (i/4)%2 == 0 {
			// every other cycle of spellings runs over what the previous run left at the output path: a rerun
			// over unchanged sources is the most common pair of "two runs"
			_ = os.Remove(outAbs)
		}
		var cwd, spelled, spell string
		switch i % 4 {
		case 0:
			cwd, spelled, spell = root, pg.SetupPath, "rel-root"
		case 1:
			cwd, spelled, spell = filepath.Dir(inputAbs), "setup.go", "pkg-dir"
		case 2:
			cwd, spelled, spell = other, inputAbs, "abs-from-elsewhere"
		default:
			cwd, spelled, spell = root, "./"+pg.SetupPath, "dot-rel"
		}
		var e []string
		switch (i / 4) % 4 {
		case 1:
			e = []string{"TZ=Asia/Tokyo", "LANG=ja_JP.UTF-8", "GOMAXPROCS=1", "GOFILE=zoo.go", "GOLINE=3", "GOPACKAGE=home"}
		case 2:
			e = []string{"TZ=America/Los_Angeles", "LC_ALL=C", "GOMAXPROCS=7", "TMPDIR=" + tmp2}
		case 3:
			// as under `go generate` started from another file of the package: the argument wins over GOFILE
			e = []string{"TZ=UTC", "LANG=de_DE.UTF-8", "GOMAXPROCS=16", "GOGC=1", "GOFILE=zoo.go", "GOLINE=3", "GOPACKAGE=home", "GOARCH=amd64", "GOOS=linux"}
		}
		if i%3 == 2 {
			time.Sleep(3 * time.Millisecond)
		}
		res := hx.Run(env.Bin, hx.RunOpts{Dir: cwd, Args: []string{spelled}, Env: e, Timeout: 90 * time.Second})
		if res.TimedOut {
			return hx.Verdict{OK: true, Inconclusive: true}, done
		}
		done++
		o := &c13Obs{Exit: res.Exit, Raw: res.Stderr, Stderr: canonStderr(res.Stderr), Stdout: res.Stdout, Config: fmt.Sprintf("run %d: cwd=%s arg=%s env=%v", i, spell, spelled, e)}
		if b, err := os.ReadFile(outAbs); err == nil {
			o.Out, o.HasOut = string(b), true
		}
		if first == nil {
			first = o
		}
		if prev := bySpelling[spell]; prev != nil && prev.Raw != o.Raw {
			return hx.Failf("C13|stderr-differs|same-spelling", "same cwd and argument, different diagnostics\n%s\n%s\n--- first ---\n%s\n--- second ---\n%s", prev.Config, o.Config, tail(prev.Raw, 1500), tail(o.Raw, 1500)), done
		}
		bySpelling[spell] = o
		switch {
		case o.Exit != first.Exit:
			return hx.Failf("C13|exit-status-differs", "%s: exit %d\n%s: exit %d\nstderr A: %s\nstderr B: %s", first.Config, first.Exit, o.Config, o.Exit, tail(first.Raw, 800), tail(o.Raw, 800)), done
		case o.HasOut != first.HasOut || o.Out != first.Out:
			return hx.Failf("C13|output-bytes-differ", "%s\n%s\n--- first ---\n%s\n--- other ---\n%s", first.Config, o.Config, first.Out, o.Out), done
		case o.Stderr != first.Stderr:
			return hx.Failf("C13|stderr-differs|across-spellings", "%s\n%s\n--- first ---\n%s\n--- other ---\n%s", first.Config, o.Config, tail(first.Stderr, 1500), tail(o.Stderr, 1500)), done
		case o.Stdout != first.Stdout:
			return hx.Failf("C13|stdout-differs", "%s\n%s", first.Config, o.Config), done
		}
	}
	return hx.Pass, done
}

func TestC13(t *testing.T) {
	env, rec := start(t, "C13", "exploration",
		"inputs = rapid-generated programs weighted towards what could expose nondeterminism (several imports incl. aliased and same-named packages, blank imports with qualified converter names, 1-3 interfaces, many methods) "+
			"and rejected variants (diagnostics must be stable too); each input is run N times (quick 12, thorough 48) in fresh processes (the output of the previous run is removed before the runs of every other cycle and left in place otherwise), cycling cwd/path spelling "+
			"(module root, package dir, unrelated dir + absolute path, ./relative) and environment (TZ, LANG/LC_ALL, GOMAXPROCS, TMPDIR, GOGC). Oracle: identical output bytes, exit status, stdout and stderr "+
			"(stderr compared byte-wise between runs of the same spelling and after replacing the spelled setup/output path across spellings). Non-trivial: input with >= 2 imports or >= 2 interfaces; distinct by program hash.")
	defer rec.Done()
	needBin(t, env)
	rec.Assume("nondeterminism with per-run probability p is missed on one input with probability (1-p)^N; many inputs of the suspicious classes are used rather than many repetitions of few")

	if env.Replay != "" {
		c, err := hx.LoadCase(env.Replay)
		if err != nil {
			t.Fatal(err)
		}
		var m c13Meta
		_ = json.Unmarshal(c.Meta, &m)
		if m.Runs == 0 {
			m.Runs = 48
		}
		rec.Eval()
		v, _ := c13Judge(env, c.Files, m.Runs)
		rec.Report(t, v, c)
		return
	}
	rec.ReplayTier(func(c *hx.Case) hx.Verdict {
		var m c13Meta
		_ = json.Unmarshal(c.Meta, &m)
		if m.Runs == 0 {
			m.Runs = 24
		}
		v, _ := c13Judge(env, c.Files, m.Runs)
		return v
	})

	runs := env.Pick(12, 48)
	rapidRun(t, env, "inputs", env.Pick(176, 1600), func(rt *rapid.T) {
		pf := fullProfile()
		pf.MaxIfaces, pf.MaxMethods, pf.MaxPairs = 3, 6, 3
		p := pg.GenProg(rt, pf)
		if rapid.IntRange(0, 2).Draw(rt, "dependencyFileNamedLikeTheOutput") > 0 && len(p.Ifaces) > 0 {
			// a dependency has a file with the output's base name that declares a getter the method matches
			p.ExtraFiles = append(p.ExtraFiles, hx.File{Name: "ext/setup.gen.go", Data: c12DepNamedLikeOutput},
				hx.File{Name: "home/withextra.go", Data: "package home\n\ntype WithExtra struct {\n\tA     int64\n\tExtra int\n}\n"})
			p.Ifaces[0].Methods = append(p.Ifaces[0].Methods, pg.Method{Name: "ConvertFromDependency", SrcType: "ext.Inner2", SrcPtr: true,
				DstType: "WithExtra", DstPtr: true, Opts: pg.Toggles{Getter: 1}})
			p.FixImports()
			rec.Class("input:dependency-file-named-like-the-output")
		}
		files := p.Files()
		kind := "as-generated"
		if rapid.IntRange(0, 4).Draw(rt, "rejected") == 0 {
			rv := rejectedVariants(p)
			kind = rapid.SampledFrom(pg.SortedKeys(rv)).Draw(rt, "kind")
			files = rv[kind]
		}
		v, done := c13Judge(env, files, runs)
		rec.EvalN(done)
		rec.Class("inputs")
		rec.Class("input:" + kind)
		rec.ClassN("runs", done)
		if len(p.Imports) >= 2 || len(p.Ifaces) >= 2 {
			rec.NonTrivial(progSummary(p) + kind)
		}
		if len(p.Imports) >= 3 {
			rec.Class("input:>=3-imports")
		}
		if len(p.Ifaces) >= 2 {
			rec.Class("input:>=2-interfaces")
		}
		rec.Sample(map[string]any{"kind": kind, "imports": p.Imports, "interfaces": progSummary(p)})
		mb, _ := json.Marshal(c13Meta{Runs: runs})
		rec.Report(rt, v, &hx.Case{Kind: "determinism", Meta: mb, Files: files})
	})
}
