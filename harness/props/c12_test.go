package props

import (
	"encoding/json"
	"fmt"
	"os"
	"path/filepath"
	"strings"
	"testing"
	"time"

	"pgregory.net/rapid"
	"verif/hx"
	"verif/pg"
)

// ---------------------------------------------------------------------------------------------
// C12 - regeneration ignores whatever is already at the output path.
// Oracle: every run is performed twice in the same directory - first with the output path emptied
// (reference), then with the previous content restored - and exit status, stdout, stderr and the bytes
// at the output path afterwards must be equal.
// ---------------------------------------------------------------------------------------------

// c12Variant is one version of the setup file. Variants of a family redefine the same type and
// function names differently, so that a stale output leaking into the type check changes the result
// (the output file name sorts before the setup file, so its declarations would win).
type c12Variant struct {
	// UseA: the setup file has a method over am.T (package a/model, declared name "model"), so its output
	// imports that package; the sibling file home/sib.go always uses b/model (also "model") in a field type
	UseA     bool
	TA, TB   string
	Methods  []string // notation+method text blocks
	HelperV  int
	Typecast bool
	BadNote  bool // rejected variant: diagnostics must not depend on the output path either
	// NoSibling leaves out the method over the sibling file's structs. Its generated code needs a package that only the
	// sibling imports, and finding that import makes goimports scan GOROOT and the module cache on every run (about
	// 0.1 s and much file-system traffic): kept for part of the variants only.
	NoSibling bool
	SibOnlyT  bool
}

func (v c12Variant) render() string {
	var sb strings.Builder
	sb.WriteString("//go:build convergen\n\npackage home\n\n")
	if v.UseA && v.HelperV%2 == 1 {
		// under its own name: the output of this variant imports a/model as "model", the name by which the sibling
		// file's b/model is known in the output of the variants that do not import a/model
		sb.WriteString("import (\n\t\"example.com/m/a/model\"\n\t\"example.com/m/ext\"\n)\n\n")
	} else if v.UseA {
		sb.WriteString("import (\n\tam \"example.com/m/a/model\"\n\t\"example.com/m/ext\"\n)\n\n")
	} else {
		sb.WriteString("import \"example.com/m/ext\"\n\n")
	}
	sb.WriteString("type WithExtra struct {\n\tA     int64\n\tExtra int\n}\n\n")
	fmt.Fprintf(&sb, "type A struct {\n\tX %s\n\tY string\n\tZ []int\n}\n\n", v.TA)
	fmt.Fprintf(&sb, "type B struct {\n\tX %s\n\tY string\n\tZ []int\n}\n\n", v.TB)
	sb.WriteString("type Convergen interface {\n")
	for _, m := range v.Methods {
		if v.Typecast {
			sb.WriteString("\t// :typecast\n")
		}
		sb.WriteString(m)
	}
	if v.UseA && v.HelperV%2 == 1 {
		sb.WriteString("\t// :typecast\n\tConvertModelA(*model.T) *SibD\n")
	} else if v.UseA {
		sb.WriteString("\t// :typecast\n\tConvertModelA(*am.T) *SibD\n")
	}
	if !v.NoSibling && v.SibOnlyT {
		// needs nothing but the name T from the package that only the sibling imports (both model packages export a T)
		sb.WriteString("\tConvertSiblingT(*SibS2) *SibD2\n")
	} else if !v.NoSibling {
		sb.WriteString("\t// :typecast\n\tConvertSibling(*SibS) *SibD\n")
	}
	sb.WriteString("\t// :getter\n\tConvertFromDependency(*ext.Inner2) *WithExtra\n")
	if v.BadNote {
		sb.WriteString("\t// :style sideways\n\tConvertRejected(*A) *B\n")
	}
	sb.WriteString("}\n\n")
	fmt.Fprintf(&sb, "func helper() int { return %d }\n", v.HelperV)
	return sb.String()
}

// c12Sibling is an ordinary file of the package: its struct uses a type of b/model, a package the setup
// file never imports (its qualifier in the generated code comes from the sibling-only import handling).
// c12DepNamedLikeOutput is a file of the imported package ext whose base name equals the output's
// (setup.gen.go); it declares a getter that ":getter" matches. Identity of the output file is its path, not
// its base name.
const c12DepNamedLikeOutput = `package ext

func (i Inner2) Extra() int { return i.D }
`

const c12Sibling = `package home

import bm "example.com/m/b/model"

type SibS struct {
	A  int
	N  int
	V  []int
	Ts []bm.T
}

type SibD struct {
	A  int
	N  bm.BInt
	V  []bm.BInt
	Ts []bm.T
}

type SibS2 struct {
	Ts []bm.T
}

type SibD2 struct {
	Ts []bm.T
}
`

var c12MethodPool = []string{
	"\tConvertAToB(*A) *B\n",
	"\t// :style arg\n\tCopyAToB(*A) *B\n",
	"\t// :skip Y\n\tConvertSkippingY(A) B\n",
	"\t// :map Y Y\n\t// :literal Z nil\n\tConvertWithNotations(*A) (*B, error)\n",
	"\t// :recv a\n\tToB(*A) *B\n",
	"\tConvertBToA(*B) *A\n",
}

func genC12Family(t *rapid.T) []c12Variant {
	n := rapid.IntRange(3, 5).Draw(t, "variants")
	types := []string{"int", "int64", "string", "LInt", "float64"}
	var fam []c12Variant
	for i := 0; i < n; i++ {
		v := c12Variant{TA: rapid.SampledFrom(types).Draw(t, "ta"), TB: rapid.SampledFrom(types).Draw(t, "tb"), HelperV: i,
			Typecast: rapid.Bool().Draw(t, "typecast"), UseA: rapid.IntRange(0, 2).Draw(t, "useA") == 0}
		// a family either uses the sibling-only import throughout or not at all (2 in 5 do)
		if i == 0 {
			v.NoSibling = rapid.IntRange(0, 4).Draw(t, "noSibling") >= 2
		} else {
			v.NoSibling = fam[0].NoSibling
		}
		v.SibOnlyT = rapid.Bool().Draw(t, "sibOnlyT")
		k := rapid.IntRange(1, 3).Draw(t, "nm")
		perm := rapid.Permutation(c12MethodPool).Draw(t, "methods")
		v.Methods = perm[:k]
		if i > 0 && rapid.IntRange(0, 3).Draw(t, "dropLast") == 0 {
			// the previous variant minus its last method: the new output may be a proper prefix of the old one
			v = fam[i-1]
			v.HelperV = fam[i-1].HelperV
			if len(v.Methods) > 1 {
				v.Methods = v.Methods[:len(v.Methods)-1]
			} else {
				v.UseA = false
			}
		}
		if i == n-1 && rapid.IntRange(0, 3).Draw(t, "rejected") == 0 {
			v.BadNote = true
		}
		fam = append(fam, v)
	}
	return fam
}

type c12Step struct {
	Op   string `json:"op"` // edit run truncate stale break delete
	Arg  int    `json:"arg,omitempty"`
	Text string `json:"text,omitempty"` // content installed by stale/break (resolved at generation time)
}

type c12Meta struct {
	Setups []string  `json:"setups"` // setup file text per variant
	Steps  []c12Step `json:"steps"`
	// ViaSymlink: the module is reached through a symbolic link to its directory (the working directory
	// of every run is the link)
	ViaSymlink bool `json:"via_symlink,omitempty"`
	// Invocation: how every run of the history names its files and what it finds in the environment.
	// 0: setup file relative to the module root, default output; 1: setup file by its real absolute path, `-out` through a
	// symbolic link to the module directory; 2: the other way round; 3: as under `go generate` started from a file of
	// ANOTHER package (GOPACKAGE/GOFILE/GOLINE describe that file, the setup file is the argument); 4: `-out` by its
	// absolute path, setup file relative; 5: `-dry -print` (nothing is written: what is announced on stdout must not depend on
	// what the output path holds either). The output path is the default one in every case.
	Invocation int `json:"invocation,omitempty"`
}

type c12Obs struct {
	Exit   int
	Stdout string
	Stderr string
	Out    *string
}

func (o c12Obs) equal(p c12Obs) (bool, string) {
	switch {
	case o.Exit != p.Exit:
		return false, "exit-status-differs"
	case (o.Out == nil) != (p.Out == nil) || o.Out != nil && *o.Out != *p.Out:
		return false, "bytes-differ"
	case o.Stderr != p.Stderr:
		return false, "stderr-differs"
	case o.Stdout != p.Stdout:
		return false, "stdout-differs"
	}
	return true, ""
}

func readOpt(p string) *string {
	b, err := os.ReadFile(p)
	if err != nil {
		return nil
	}
	s := string(b)
	return &s
}

func c12RunOnce(env *hx.Env, root string, inv int) (c12Obs, bool) {
	cwd := root
	link := root + "-link"
	if inv == 0 && hx.Exists(link) {
		cwd = link
	}
	args := []string{pg.SetupPath}
	e := []string{"PWD=" + cwd}
	switch inv {
	case 1:
		args = []string{"-out", filepath.Join(link, filepath.FromSlash(pg.OutPath)), filepath.Join(root, filepath.FromSlash(pg.SetupPath))}
	case 2:
		args = []string{"-out", filepath.Join(root, filepath.FromSlash(pg.OutPath)), filepath.Join(link, filepath.FromSlash(pg.SetupPath))}
	case 3:
		e = append(e, "GOPACKAGE=tools", "GOFILE=gen.go", "GOLINE=3", "GOARCH=amd64", "GOOS=linux")
	case 4:
		args = []string{"-out", filepath.Join(root, filepath.FromSlash(pg.OutPath)), pg.SetupPath}
	case 5:
		args = []string{"-dry", "-print", pg.SetupPath}
	}
	res := hx.Run(env.Bin, hx.RunOpts{Dir: cwd, Args: args, Env: e, Timeout: 90 * time.Second})
	return c12Obs{Exit: res.Exit, Stdout: res.Stdout, Stderr: res.Stderr, Out: readOpt(filepath.Join(root, filepath.FromSlash(pg.OutPath)))}, res.TimedOut
}

var c12Broken = []string{
	"package home\n\nfunc broken( {\n",
	"package home\n\ntype A struct {\n\tX int\n",
	"package home\n\ntype A struct{ X chan int }\n\ntype A struct{ X chan int }\n\nfunc helper() int { return -1 }\n",
	"package home\n\n}}}} garbage ((((\n",
	"package home\n\nimport \"no/such/package\"\n\nvar _ = pkg.X\n",
	"package home\n\nimport (\n\t\"example.com/m/ext\n",
	"package home\n",
	"package home\n\ntype B struct{ X func() }\n\nfunc ConvertAToB(src *A) (dst *B) { return nil }\n",
	"\x00\x01\x02 not go at all",
	"",
	c13Stale, // a complete valid file of the package whose imports use the names of other zoo packages
}

// corruptionClass names the kind of content left at the output path (middle part of the fingerprint).
func corruptionClass(pre *string, clean map[string]bool) string {
	if pre == nil {
		return "absent"
	}
	s := *pre
	if clean[s] {
		return "stale-output"
	}
	for c := range clean {
		if len(s) > len(c) && strings.HasPrefix(s, c) {
			return "good-output-plus-appended-text"
		}
		if s == strings.ReplaceAll(c, "\n", "\r\n") || s == strings.TrimSuffix(c, "\n") {
			return "good-output-re-encoded"
		}
	}
	if s == c13Stale {
		return "valid-file-with-other-imports"
	}
	for c := range clean {
		if strings.HasPrefix(c, s) {
			switch {
			case len(s) == 0:
				return "truncate@0"
			case !strings.Contains(s, "package "):
				return "truncate@before-package-clause"
			case !strings.Contains(s, "package home"):
				return "truncate@package-ident-prefix"
			default:
				return "truncate@after-package-clause"
			}
		}
	}
	return "broken-go"
}

// c12Judge replays a history. It returns the verdict and the number of judged runs.
func c12Judge(env *hx.Env, m c12Meta, rec *hx.Recorder) (hx.Verdict, int) {
	root := env.Scratch("hist")
	defer os.RemoveAll(root)
	base := (&pg.Prog{}).Files().Set("home/sib.go", c12Sibling).Set("ext/setup.gen.go", c12DepNamedLikeOutput)
	base = removeFile(base, pg.SetupPath)
	if err := hx.WriteTree(root, base); err != nil {
		return hx.Failf("harness|io", "%v", err), 0
	}
	if m.ViaSymlink || m.Invocation == 1 || m.Invocation == 2 {
		if err := os.Symlink(root, root+"-link"); err != nil {
			return hx.Failf("harness|io", "%v", err), 0
		}
		defer os.Remove(root + "-link")
	}
	outAbs := filepath.Join(root, filepath.FromSlash(pg.OutPath))
	setupAbs := filepath.Join(root, filepath.FromSlash(pg.SetupPath))
	clean := map[string]bool{}
	judged := 0
	corrupted := false
	for i, st := range m.Steps {
		switch st.Op {
		case "edit":
			if err := os.WriteFile(setupAbs, []byte(m.Setups[st.Arg%len(m.Setups)]), 0o644); err != nil {
				return hx.Failf("harness|io", "%v", err), judged
			}
		case "dep":
			// a file of an IMPORTED package changes (the setup file's directory and go.mod stay as they are): ext.Inner2 gains
			// or loses the getter that ":getter" matches in ConvertFromDependency
			depAbs := filepath.Join(root, "ext", "setup.gen.go")
			if st.Arg == 0 {
				_ = os.WriteFile(depAbs, []byte("package ext\n\n// (the getter Extra is gone)\n"), 0o644)
			} else {
				_ = os.WriteFile(depAbs, []byte(c12DepNamedLikeOutput), 0o644)
			}
		case "delete":
			_ = os.Remove(outAbs)
		case "truncate":
			if cur := readOpt(outAbs); cur != nil && len(*cur) > 0 {
				k := min(st.Arg, len(*cur))
				_ = os.WriteFile(outAbs, []byte((*cur)[:k]), 0o644)
				corrupted = true
			}
		case "append":
			if cur := readOpt(outAbs); cur != nil {
				_ = os.WriteFile(outAbs, []byte(*cur+st.Text), 0o644)
				corrupted = true
			}
		case "reencode":
			// the good output re-encoded without changing the text of any line: CRLF line ends (Arg 0) or no final newline
			if cur := readOpt(outAbs); cur != nil && len(*cur) > 0 {
				t := strings.ReplaceAll(*cur, "\n", "\r\n")
				if st.Arg == 1 {
					t = strings.TrimSuffix(*cur, "\n")
				}
				_ = os.WriteFile(outAbs, []byte(t), 0o644)
				corrupted = true
			}
		case "stale", "break":
			_ = os.WriteFile(outAbs, []byte(st.Text), 0o644)
			corrupted = true
		case "run":
			if !hx.Exists(setupAbs) {
				continue
			}
			pre := readOpt(outAbs)
			_ = os.Remove(outAbs)
			ref, to := c12RunOnce(env, root, m.Invocation)
			if to {
				return hx.Verdict{OK: true, Inconclusive: true}, judged
			}
			if ref.Out != nil {
				clean[*ref.Out] = true
			}
			_ = os.Remove(outAbs)
			if pre != nil {
				_ = os.WriteFile(outAbs, []byte(*pre), 0o644)
			}
			got, to := c12RunOnce(env, root, m.Invocation)
			if to {
				return hx.Verdict{OK: true, Inconclusive: true}, judged
			}
			// a failed run must leave the path as it was (C15); for the comparison with the reference the
			// relevant observation is what the run itself produced
			if got.Exit != 0 && ref.Exit != 0 || m.Invocation == 5 {
				// (a dry run writes nothing: the path still holds what was put there; whether it does is C15's matter)
				got.Out, ref.Out = nil, nil
			}
			judged++
			cls := corruptionClass(pre, clean)
			if rec != nil {
				rec.Class("run-after:" + cls)
				if corrupted {
					rec.Class("run-after-corruption")
				}
			}
			corrupted = false
			if ok, sym := got.equal(ref); !ok {
				preTxt := "<absent>"
				if pre != nil {
					preTxt = *pre
				}
				return hx.Failf("C12|"+cls+"|"+sym, "step %d: run with previous content at the output path differs from the run with the path emptied (%s)\n--- content left at the output path ---\n%s\n--- reference: exit %d stderr ---\n%s\n--- got: exit %d stderr ---\n%s",
					i, sym, tail(preTxt, 1200), ref.Exit, tail(ref.Stderr, 600), got.Exit, tail(got.Stderr, 600)), judged
			}
			// run; run changes nothing
			again, to := c12RunOnce(env, root, m.Invocation)
			if to {
				return hx.Verdict{OK: true, Inconclusive: true}, judged
			}
			if got.Exit != 0 && again.Exit != 0 || m.Invocation == 5 {
				again.Out = nil
			}
			if ok, sym := again.equal(got); !ok {
				return hx.Failf("C12|rerun|"+sym, "step %d: running twice in a row changes the result (%s)", i, sym), judged
			}
		}
	}
	return hx.Pass, judged
}

func TestC12(t *testing.T) {
	env, rec := start(t, "C12", "fault_enumeration",
		"(a) rapid state machine over a scratch package with a family of 3-5 setup-file variants that redefine the same type and function names differently (types declared in the setup file and carried over): "+
			"actions edit(variant), run, truncate(k), stale(output of another variant; variants differ in methods, field types, whether they import a/model, and some are an earlier variant minus its last method), append(text after the good output), reencode(the good output with CRLF line ends or without its final newline), break(one of eleven same-package contents: unbalanced braces, half a declaration, duplicate declarations, garbage, unresolved import, unterminated import, bare package clause, conflicting redefinitions, binary junk, empty, a complete valid file with other imports), delete; "+
			"(b) crash-point sweep: for outputs of several variants every truncation point 0..len (quick: every byte of one output; thorough: six outputs). "+
			"Oracle: each run is done twice in the same directory, with the output path emptied and with the previous content restored: equal exit status, stdout, stderr, bytes; run;run changes nothing. "+
			"Non-trivial: a judged run preceded by truncate/stale/break since the last run; histories distinct by hash, sweep points by construction.")
	defer rec.Done()
	needBin(t, env)
	rec.Assume("T18: corruptions are prefixes of real outputs, stale real outputs and broken Go whose package clause names the same package")

	judgeCase := func(c *hx.Case) hx.Verdict {
		var m c12Meta
		if err := json.Unmarshal(c.Meta, &m); err != nil {
			return hx.Failf("harness|bad-meta", "%v", err)
		}
		v, _ := c12Judge(env, m, nil)
		return v
	}
	if env.Replay != "" {
		c, err := hx.LoadCase(env.Replay)
		if err != nil {
			t.Fatal(err)
		}
		rec.Eval()
		rec.Report(t, judgeCase(c), c)
		return
	}
	rec.ReplayTier(judgeCase)

	mkCase := func(m c12Meta, kind string) *hx.Case {
		b, _ := json.Marshal(m)
		var files hx.Files
		for i, s := range m.Setups {
			files = append(files, hx.File{Name: fmt.Sprintf("variant-%d/setup.go", i), Data: s})
		}
		return &hx.Case{Kind: kind, Meta: b, Files: files}
	}

	// clean output of a variant (run in an empty directory)
	cleanOut := func(setup string) (string, bool) {
		o, err := pg.RunModule(env, (&pg.Prog{}).Files().Set("home/sib.go", c12Sibling).Set("ext/setup.gen.go", c12DepNamedLikeOutput).Set(pg.SetupPath, setup))
		if err != nil {
			return "", false
		}
		defer o.Cleanup()
		return o.Out, o.HasOut && o.Res.Exit == 0
	}

	// (b) crash-point sweep
	t.Run("crash-point-sweep", func(t *testing.T) {
		fams := [][]c12Variant{
			{{TA: "int", TB: "int", Methods: c12MethodPool[:1], NoSibling: true}},
			{{TA: "int", TB: "int64", Typecast: true, Methods: c12MethodPool[1:4]}},
			{{TA: "string", TB: "LInt", Methods: c12MethodPool[3:6]}},
			{{TA: "LInt", TB: "int", Typecast: true, Methods: c12MethodPool[:3]}},
			{{TA: "float64", TB: "float64", Methods: c12MethodPool[4:5]}},
			{{TA: "int", TB: "string", Methods: c12MethodPool}},
		}
		nf := env.Pick(1, len(fams))
		idx := 0
		for fi := 0; fi < nf; fi++ {
			setup := fams[fi][0].render()
			out, ok := cleanOut(setup)
			if !ok {
				t.Fatalf("sweep variant %d is not accepted", fi)
			}
			for k := 0; k <= len(out); k++ {
				idx++
				if !mine(env, idx) {
					continue
				}
				m := c12Meta{Setups: []string{setup}, Steps: []c12Step{{Op: "edit", Arg: 0}, {Op: "break", Text: out[:k]}, {Op: "run"}}}
				// every other point (and every point around the package clause) is swept through a symlinked module directory
				if k%2 == 1 || k < 120 && fi == 0 && idx%2 == 0 {
					m.ViaSymlink = true
					rec.Class("sweep-points-via-symlink")
				}
				// a fifth of the points with another way of naming the files (hash-sampled: independent of the parity above)
				if h := hx.SplitMix64(uint64(idx)*0x9e3779b97f4a7c15 ^ env.Seed); h%5 == 0 {
					m.Invocation = 1 + int(h/5%5)
					rec.Class(fmt.Sprintf("sweep-points-invocation-%d", m.Invocation))
				}
				if strings.Contains(out[:k], "package ") && !strings.Contains(out[:k], "package home") && rec.IsKnownOpen("C12|truncate@package-ident-prefix|exit-status-differs") {
					rec.ExcludedByConstruction("truncation inside the package identifier (open finding C12|truncate@package-ident-prefix)")
					continue
				}
				v, n := c12Judge(env, m, rec)
				rec.EvalN(n)
				rec.NonTrivialDistinctN(n)
				rec.Class("sweep-points")
				if k == len(out)/2 {
					rec.Sample(map[string]any{"sweep": fmt.Sprintf("variant %d truncated at byte %d of %d", fi, k, len(out)), "left_at_output_path": out[:k]})
				}
				rec.Report(t, v, mkCase(m, "crash-point"))
			}
		}
		rec.SetExhaustive(true)
	})

	// (a) histories
	rapidRun(t, env, "histories", env.Pick(480, 6400), func(rt *rapid.T) {
		fam := genC12Family(rt)
		m := c12Meta{}
		outs := make([]string, len(fam))
		for _, v := range fam {
			m.Setups = append(m.Setups, v.render())
		}
		for i := range fam {
			outs[i], _ = cleanOut(m.Setups[i])
		}
		m.Steps = append(m.Steps, c12Step{Op: "edit", Arg: 0})
		n := rapid.IntRange(3, 12).Draw(rt, "steps")
		for i := 0; i < n; i++ {
			switch k := rapid.IntRange(0, 99).Draw(rt, "op"); {
			case k < 20:
				m.Steps = append(m.Steps, c12Step{Op: "edit", Arg: rapid.IntRange(0, len(fam)-1).Draw(rt, "variant")})
			case k < 55:
				m.Steps = append(m.Steps, c12Step{Op: "run"})
			case k < 70:
				at := rapid.IntRange(0, 1200).Draw(rt, "at")
				if rapid.IntRange(0, 3).Draw(rt, "nearHeader") == 0 {
					at = rapid.IntRange(0, 90).Draw(rt, "atHeader")
				}
				m.Steps = append(m.Steps, c12Step{Op: "truncate", Arg: at}, c12Step{Op: "run"})
			case k < 83:
				o := outs[rapid.IntRange(0, len(fam)-1).Draw(rt, "staleOf")]
				if o == "" {
					continue
				}
				m.Steps = append(m.Steps, c12Step{Op: "stale", Text: o}, c12Step{Op: "run"})
			case k < 89:
				m.Steps = append(m.Steps, c12Step{Op: "break", Text: rapid.SampledFrom(c12Broken).Draw(rt, "broken")}, c12Step{Op: "run"})
			case k < 92:
				m.Steps = append(m.Steps, c12Step{Op: "reencode", Arg: rapid.IntRange(0, 1).Draw(rt, "reencoding")}, c12Step{Op: "run"})
			case k < 95:
				// something appended to the good output (left-over of a longer earlier result)
				m.Steps = append(m.Steps, c12Step{Op: "append", Text: rapid.SampledFrom([]string{"\nfunc leftOver() int { return 1 }\n", "// trailing junk", "\n\n", "}", "\nfunc ConvertAToB(src *A) (dst *B) {\n\treturn nil\n}\n"}).Draw(rt, "appended")}, c12Step{Op: "run"})
			case k < 97:
				m.Steps = append(m.Steps, c12Step{Op: "dep", Arg: rapid.IntRange(0, 1).Draw(rt, "depHasGetter")}, c12Step{Op: "run"})
			default:
				m.Steps = append(m.Steps, c12Step{Op: "delete"})
			}
		}
		m.Steps = append(m.Steps, c12Step{Op: "run"})
		m.ViaSymlink = rapid.IntRange(0, 3).Draw(rt, "viaSymlink") == 0
		if m.ViaSymlink {
			rec.Class("histories-via-symlink")
		}
		if rapid.IntRange(0, 3).Draw(rt, "otherInvocation") == 0 {
			m.Invocation = rapid.IntRange(1, 5).Draw(rt, "invocation")
			rec.Class(fmt.Sprintf("histories-invocation-%d", m.Invocation))
		}
		// open finding: truncation inside the package identifier is excluded by construction (the
		// judge would otherwise stop every history that happens to cut there)
		if rec.IsKnownOpen("C12|truncate@package-ident-prefix|exit-status-differs") {
			zone := strings.Index(outs[0], "package home")
			for i := range m.Steps {
				if m.Steps[i].Op == "truncate" && zone >= 0 && m.Steps[i].Arg > zone+len("package ") && m.Steps[i].Arg < zone+len("package home") {
					m.Steps[i].Arg = zone + len("package home")
					rec.ExcludedByConstruction("truncate inside the package identifier moved to its end (open finding C12|truncate@package-ident-prefix)")
				}
			}
		}
		v, judged := c12Judge(env, m, rec)
		rec.EvalN(judged)
		rec.Class("histories")
		var ops []string
		nontrivial := false
		for _, s := range m.Steps {
			ops = append(ops, s.Op)
			if s.Op == "truncate" || s.Op == "stale" || s.Op == "break" || s.Op == "append" || s.Op == "reencode" || s.Op == "dep" {
				nontrivial = true
			}
		}
		if nontrivial {
			b, _ := json.Marshal(m)
			rec.NonTrivial(string(b))
		}
		rec.Sample(map[string]any{"ops": strings.Join(ops, " "), "variant0": m.Setups[0]})
		rec.Report(rt, v, mkCase(m, "history"))
	})
}
