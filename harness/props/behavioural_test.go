package props

import (
	"encoding/json"
	"fmt"
	"sort"
	"strings"
	"testing"

	"pgregory.net/rapid"
	"verif/hx"
	"verif/pg"
)

// Behavioural judge shared by C02, C06, C07, C10 and C16: structural judge first (it tells which
// acceptable alternative the tool realised), then the emitted driver executes generated and reference
// functions on seeded value sets inside the generated package.

type behIssue struct {
	Property string
	Class    string
	Symptom  string
	Detail   string
	Method   string
}

func (b behIssue) Fingerprint() string { return b.Property + "|" + b.Class + "|" + b.Symptom }

type behResult struct {
	S         *structResult
	Issues    []behIssue
	Stats     map[string]map[string]int
	NotBuilt  string // the output does not compile (C01's business) or the driver itself is broken
	HarnessEr string
	Timeout   bool
	Cases     string
}

func leafFor(plan *pg.Plan, dumpPath string) *pg.Leaf {
	var best *pg.Leaf
	plan.Walk(func(l *pg.Leaf) {
		if dumpPath == l.Path || strings.HasPrefix(dumpPath, l.Path+".") || strings.HasPrefix(dumpPath, l.Path+"[") || strings.HasPrefix(dumpPath, l.Path+"-") || strings.HasPrefix(dumpPath, l.Path+"(") {
			if best == nil || len(l.Path) > len(best.Path) {
				best = l
			}
		}
	})
	return best
}

// behAllowNil is set while the archive of the open nil-dereference finding is re-judged.
var behAllowNil bool

func behaviouralJudge(env *hx.Env, p *pg.Prog, files hx.Files, nValues int, seed uint64) *behResult {
	res := &behResult{}
	res.S = structuralJudge(env, p, files, true)
	defer res.S.cleanup()
	s := res.S
	if s.PlanErr != "" || s.Exit != 0 || s.Timeout || s.Dir == "" {
		return res
	}
	// C07, third sentence, read off the text (it needs no execution, and the text need not even compile): a function
	// without error result neither assigns to err nor tests it
	for _, m := range p.AllMethods() {
		f := s.Funcs[funcKeyOf(m)]
		if f == nil || f.HasErr {
			continue
		}
		for _, ln := range strings.Split(f.Body, "\n") {
			t := strings.TrimSpace(ln)
			if strings.Contains(t, ", err = ") || strings.HasPrefix(t, "err = ") || strings.HasPrefix(t, "if err != nil") {
				res.Issues = append(res.Issues, behIssue{Property: "C07", Class: "error-path", Symptom: "error-capable-call-in-function-without-error-result", Method: m.Name,
					Detail: "the function has no error result but contains `" + t + "`"})
				break
			}
		}
	}
	if ok, _, raw := pg.Build(s.Dir); !ok {
		if raw == pg.BuildTimeout {
			res.Timeout = true
			return res
		}
		res.NotBuilt = raw
		return res
	}
	var dms []*pg.DriverMethod
	for _, m := range p.AllMethods() {
		plan := s.Plans[m.Name]
		if plan == nil {
			continue
		}
		dms = append(dms, &pg.DriverMethod{Plan: plan, Chosen: s.Chosen[m.Name], AllowNil: behAllowNil})
	}
	nilRisk := map[string]bool{}
	for _, dm := range dms {
		nilRisk[dm.Plan.Method.Name] = dm.NilRisk()
	}
	res.Cases = pg.EmitCases(p, dms)
	rep, raw, err := pg.RunDriver(s.Dir, res.Cases, nValues, seed)
	if raw == "timeout" {
		res.Timeout = true
		return res
	}
	if err != nil {
		// The driver calls every generated function with the documented signature for its method. If it
		// does not compile because of such a call, the generated function is not callable as documented.
		for _, m := range p.AllMethods() {
			for _, ln := range strings.Split(raw, "\n") {
				if strings.Contains(ln, "zz_cases_test.go") && (strings.Contains(ln, " "+m.Name+"\n") || strings.HasSuffix(ln, " "+m.Name) || strings.Contains(ln, "."+m.Name+" ") || strings.Contains(ln, " "+m.Name+" ") || strings.Contains(ln, m.Name+"(")) && !strings.Contains(ln, "ref_") {
					res.Issues = append(res.Issues, behIssue{Property: "C08", Class: "call", Symptom: "generated-function-not-callable-with-the-documented-signature", Method: m.Name, Detail: strings.TrimSpace(ln)})
				}
			}
		}
		if len(res.Issues) == 0 {
			res.HarnessEr = err.Error() + "\n" + tail(raw, 3000)
		}
		return res
	}
	res.Stats = rep.Stats
	hasConv := map[string]bool{}
	for _, m := range p.AllMethods() {
		for _, n := range m.Notes {
			if n.Kind == "conv" || n.Kind == "map" {
				hasConv[m.Name] = true
			}
		}
	}
	for _, is := range rep.Issues {
		plan := s.Plans[is.Method]
		bi := behIssue{Method: is.Method, Detail: fmt.Sprintf("[value set %d, mode %d] %s", is.Seed, is.Mode, is.Detail)}
		switch is.Kind {
		case "panic":
			bi.Property, bi.Class, bi.Symptom = "C02", "call", "panic:"+pg.NormalizeCompilerMsg(is.Detail)
			if nilRisk[is.Method] {
				// the method dereferences a pointer on an explicit source path or calls String() on a
				// pointer / interface: a distinct construct class (open finding), so that a nil dereference
				// anywhere else keeps its own fingerprint
				bi.Class = "call@explicit-path-through-pointer-or-String-on-nilable"
			}
		case "dst-diff":
			bi.Property, bi.Class, bi.Symptom = "C02", "field", "value-differs"
			if plan != nil {
				if l := leafFor(plan, is.Path); l != nil {
					bi.Class = l.Class
					if l.Explicit != "" {
						bi.Property = "C06"
					} else if _, isSlice := l.Type.Underlying().(interface{ Elem() interface{} }); isSlice {
						bi.Property = "C02"
					}
					if strings.HasPrefix(l.Class, "slice") {
						bi.Symptom = "slice-value-differs"
					}
				} else {
					bi.Class, bi.Symptom = "unplanned-field", "untouched-field-changed"
				}
			}
		case "operand-modified":
			bi.Property, bi.Class, bi.Symptom = "C02", "operand", "source-or-argument-modified"
		case "trace", "observed-args":
			bi.Property, bi.Class, bi.Symptom = "C02", "calls", is.Kind
			if hasConv[is.Method] {
				bi.Property = "C06"
			}
		case "hook-order", "hook-args":
			bi.Property, bi.Class, bi.Symptom = "C10", "hook", is.Kind
		case "slice-aliased":
			bi.Property, bi.Class, bi.Symptom = "C16", "slice", "aliased"
			if plan != nil {
				if l := leafFor(plan, is.Path); l != nil {
					bi.Class = l.Class
				}
			}
		case "fault-panic", "fault-error-not-returned", "fault-later-call", "unexpected-error", "error-capable-call-without-error-result":
			bi.Property, bi.Class, bi.Symptom = "C07", "error-path", is.Kind
			if strings.Contains(is.Path, ".") || strings.Contains(is.Detail, "nested") {
				bi.Class = "error-path"
			}
		default:
			bi.Property, bi.Class, bi.Symptom = "C02", "other", is.Kind
		}
		res.Issues = append(res.Issues, bi)
	}
	return res
}

// also C16-owned: value differences on slice leaves
func (r *behResult) issuesFor(prop string) []behIssue {
	var out []behIssue
	for _, i := range r.Issues {
		if i.Property == prop || prop == "C16" && strings.HasPrefix(i.Symptom, "slice-") || i.Property == "C08" {
			out = append(out, i)
		}
	}
	sort.Slice(out, func(a, b int) bool { return out[a].Fingerprint() < out[b].Fingerprint() })
	return out
}

func (r *behResult) verdictFor(prop string, p *pg.Prog) hx.Verdict {
	if r.Timeout || r.S.Timeout {
		return hx.Verdict{OK: true, Inconclusive: true}
	}
	if r.HarnessEr != "" {
		return hx.Failf("harness|driver", "%s", r.HarnessEr)
	}
	is := r.issuesFor(prop)
	if len(is) == 0 {
		return hx.Pass
	}
	first := is[0]
	var m *pg.Method
	for _, mm := range p.AllMethods() {
		if mm.Name == first.Method {
			m = mm
		}
	}
	notes, decl := "", ""
	if m != nil {
		notes = strings.Join(m.NotationLines(), "; ") + " " + m.MethodLine()
		if f := r.S.Funcs[funcKeyOf(m)]; f != nil {
			decl = f.Decl
		}
	}
	if i := strings.Index(r.Cases, "// reference for "+first.Method+":"); i >= 0 {
		ref := r.Cases[i:]
		if j := strings.Index(ref, "\nfunc init()"); j > 0 {
			ref = ref[:j]
		}
		decl += "\n--- reference function (written by the harness from its plan) ---\n" + ref
	}
	fp := first.Fingerprint()
	if prop != first.Property {
		fp = prop + "|" + first.Class + "|" + first.Symptom
	}
	return hx.Failf(fp, "%s\n  method: %s\n  (%d issues of %s in this file)\n--- generated function ---\n%s", first.Detail, notes, len(is), prop, decl)
}

type behOpts struct {
	id, level, rule  string
	quick, thorough  int
	valuesQ, valuesT int
	pf               pg.Profile
	gen              func(*rapid.T, pg.Profile) *pg.Prog
	nontrivial       func(*pg.Prog, *behResult) bool
	extraStructural  []string // structural properties whose issues this check also owns
	extra            func(env *hx.Env, rec *hx.Recorder, t *testing.T, judge func(*pg.Prog, hx.Files) (*behResult, hx.Verdict))
}

func runBehavioural(t *testing.T, o behOpts) {
	env, rec := start(t, o.id, o.level, o.rule)
	defer rec.Done()
	needBin(t, env)
	rec.Assume("reference functions are written by the harness from its own plan (DESIGN.md appendix A/B); generated user functions never panic on their own (T17)")
	rec.Assume("open finding (nil dereference on explicit source paths / String() on nil): value sets keep pointers non-nil for methods that dereference on such paths; counted as excluded_by_construction")
	nValues := env.Pick(o.valuesQ, o.valuesT)
	judge := func(p *pg.Prog, files hx.Files) (*behResult, hx.Verdict) {
		r := behaviouralJudge(env, p, files, nValues, env.Seed)
		if r.S.PlanErr != "" {
			return r, hx.Failf("harness|plan", "%s", r.S.PlanErr)
		}
		v := r.verdictFor(o.id, p)
		if v.OK {
			for _, sp := range o.extraStructural {
				if sv := r.S.verdictFor(sp, p); !sv.OK {
					sv.Fingerprint = o.id + strings.TrimPrefix(sv.Fingerprint, sp)
					return r, sv
				}
			}
		}
		return r, v
	}
	judgeCase := func(c *hx.Case) hx.Verdict {
		p, err := loadProgCase(c)
		if err != nil {
			return hx.Failf("harness|bad-meta", "%v", err)
		}
		var pm progMeta
		_ = json.Unmarshal(c.Meta, &pm)
		behAllowNil = pm.AllowNil
		defer func() { behAllowNil = false }()
		_, v := judge(p, c.Files)
		return v
	}
	if env.Replay != "" {
		c, err := hx.LoadCase(env.Replay)
		if err != nil {
			t.Fatal(err)
		}
		rec.Eval()
		rec.Report(t, judgeCase(c), c)
		return
	}
	rec.ReplayTier(judgeCase)
	if o.extra != nil {
		o.extra(env, rec, t, judge)
	}
	gen := o.gen
	if gen == nil {
		gen = func(rt *rapid.T, pf pg.Profile) *pg.Prog { return pg.GenProg(rt, pf) }
	}
	rapidRun(t, env, "programs", env.Pick(o.quick, o.thorough), func(rt *rapid.T) {
		p := gen(rt, o.pf)
		files := p.Files()
		r, v := judge(p, files)
		if r.S.PlanErr != "" {
			rec.Class("generator-invalid-or-plan-error")
			if rec.Classes["generator-invalid-or-plan-error"] > 10+rec.Evals/10 {
				rt.Fatalf("too many plan errors: %s\n%s", r.S.PlanErr, p.RenderSetup())
			}
			return
		}
		if r.S.Exit != 0 {
			rec.Class("outcome:rejected (judged by C03)")
			return
		}
		if r.NotBuilt != "" {
			rec.Class("outcome:output-does-not-compile (judged by C01)")
			// what could be read off the text without compiling it (C07: an error-capable call in a function without error
			// result) is still this check's business
			if !v.OK && !v.Inconclusive {
				rec.Report(rt, v, progCase(p, files, "program"))
			}
			return
		}
		recordBehStats(rec, r)
		rec.Class("outcome:executed")
		if o.nontrivial(p, r) {
			rec.NonTrivial(progSummary(p) + fmt.Sprint(p.Structs))
		}
		rec.Sample(progSummary(p))
		rec.Report(rt, v, progCase(p, files, "program"))
	})
}

func recordBehStats(rec *hx.Recorder, r *behResult) {
	runs := 0
	for _, st := range r.Stats {
		runs += st["runs"] + st["fault_runs"]
		rec.ClassN("driver:value-set-runs", st["runs"])
		rec.ClassN("driver:edge-mode-runs", st["edge_runs"])
		rec.ClassN("driver:fault-runs", st["fault_runs"])
		rec.ClassN("driver:alias-probes", st["alias_probes"])
		rec.ClassN("driver:nil-slice-sources", st["nil_slice_sources"])
		rec.ClassN("driver:hook-calls-observed", st["hook_calls"])
		rec.ClassN("driver:error-capable-call-sites", st["error_sites"])
		rec.ClassN("driver:methods-not-observable(skipped)", st["skipped_unobservable"])
		rec.Class("driver:methods")
	}
	rec.EvalN(max(1, runs))
	for _, m := range r.S.Plans {
		dm := &pg.DriverMethod{Plan: m, Chosen: r.S.Chosen[m.Method.Name]}
		if dm.NilRisk() {
			rec.ExcludedByConstruction("nil pointers on explicit source paths / under String() (open finding C02 nil-dereference): method run with non-nil pointers only")
		}
	}
	leafStats(rec, r.S)
}

func TestC02(t *testing.T) {
	pf := fullProfile()
	runBehavioural(t, behOpts{id: "C02", level: "exploration",
		rule: "rapid-generated programs over the whole of Engine P (all shapes incl. receivers and :reverse, toggles, notations, hooks, imported and odd-layout packages); every generated function that compiles is executed inside its package together with a reference function written by the harness from its plan, " +
			"on seeded value sets in three modes (distinct leaves / random / edge: nil pointers, nil-empty-shared-backing slices, zero and extreme scalars, empty and non-ASCII strings, nil maps/interfaces/funcs/chans), arg style and :reverse starting from a pre-filled destination. " +
			"Oracle: no panic; every destination leaf equals the reference (untouched leaves keep the previous / zero value); source operand and additional arguments equal their snapshots; instrumented getters/String/converters/hooks are called as the plan says (multiset) with equal arguments. " +
			"Non-trivial: a function with at least one non-identity leaf (conversion, getter, converter, nested, slice) that was run on an edge-mode value set; evaluations = executed value sets; distinct by program text.",
		quick: 560, thorough: 8000, valuesQ: 12, valuesT: 48, pf: pf,
		nontrivial: func(p *pg.Prog, r *behResult) bool {
			edge := 0
			for _, st := range r.Stats {
				edge += st["edge_runs"]
			}
			return edge > 0 && len(leafStats(hx.NewRecorder(hx.LoadEnv("C02"), "", ""), r.S)) > 0
		}})
}

func TestC06(t *testing.T) {
	pf := fullProfile()
	pf.Hooks = false
	pf.MaxMethods = 4
	runBehavioural(t, behOpts{id: "C06", level: "exploration",
		rule: "rapid-generated methods carrying 0-4 explicit notations each: :skip exact and /regexp/ in both case modes, :map with field / getter-chain / embedded / $n[.path] sources, :conv with generated converters (by value, by pointer, with error) and zoo converters (local, imported, odd-layout packages), :literal from a table of well-typed literals; destination paths top-level and nested (also under structs that are assignable as a whole), skip-vs-explicit conflicts. " +
			"Oracle: structural - a skipped path is never written (itself, an ancestor or a member), an explicitly named path is written from exactly the named source / converter / literal or reported `no match` only if the harness's resolver (go/types lookups with accessibility, addressability and getter-shape rules) cannot resolve or type the source; " +
			"behavioural - executed against the reference function with distinct-leaf value sets, converters record their argument and return a random value planted by the driver. Non-trivial: a method with a nested-path notation, a skip/explicit conflict, a $n source or a regexp under :case:off; evaluations = executed value sets.",
		quick: 560, thorough: 8000, valuesQ: 9, valuesT: 36, pf: pf, extraStructural: []string{"C06"},
		nontrivial: func(p *pg.Prog, r *behResult) bool {
			for _, m := range p.AllMethods() {
				for _, n := range m.Notes {
					if len(n.Args) == 0 {
						continue
					}
					last := n.Args[len(n.Args)-1]
					if n.Kind != "literal" && strings.Contains(last, ".") || n.Kind == "literal" && strings.Contains(n.Args[0], ".") || strings.HasPrefix(n.Args[0], "$") || n.Kind == "skip" && strings.HasPrefix(n.Args[0], "/") {
						return true
					}
				}
			}
			return false
		}})
}

func TestC07(t *testing.T) {
	pf := fullProfile()
	pf.ErrHeavy = true
	runBehavioural(t, behOpts{id: "C07", level: "fault_enumeration",
		rule: "rapid-generated methods with error result and k >= 1 error-capable call sites - (T, error) converters on top-level and nested destination paths, (T, error) getters through :map, pre/post hooks returning error - in all styles, plus methods without error result that name error-capable functions. " +
			"Oracle: fault enumeration inside the generated package - the no-fault run must return nil; then, for the first six value sets, every error-capable call site of the no-fault trace (up to eight) is made to return a unique sentinel in turn: the function must return that very value (==) and the instrumented trace must stop at the failing call; " +
			"structurally, a function without error result must not contain an assignment of the form `x, err = ...` nor an error-returning hook. Non-trivial: function with k >= 2 sites, a site on a nested path, or hook + converter; evaluations = value-set runs + fault runs.",
		quick: 560, thorough: 8000, valuesQ: 6, valuesT: 12, pf: pf,
		nontrivial: func(p *pg.Prog, r *behResult) bool {
			for _, st := range r.Stats {
				if st["error_sites"] >= 2 {
					return true
				}
			}
			return false
		}})
}

func TestC16(t *testing.T) {
	pf := fullProfile()
	pf.OnlyKinds = []string{"slice", "basic"}
	pf.Hooks, pf.Notations = false, false
	pf.MaxFields = 8
	runBehavioural(t, behOpts{id: "C16", level: "exploration",
		rule: "(a) complete matrix of ordered element-type pairs over the slice alphabet (identical basic, named, struct, pointer, interface elements; assignable-not-identical such as T into interface{}; convertible under :typecast; not convertible; local and imported; named slice types) as same-named fields, reached through fields and through getters, with :typecast on and off; " +
			"(b) rapid struct pairs restricted to slice and basic field types; (c) slice members of a nested struct of the same type on both sides that a notation below it (:skip / :literal / :map on a sibling member, one and two levels down) forces to be copied member by member. Every generated function is executed on value sets with nil, empty non-nil, length 1-4, cap > len and shared-backing-array slices: after the call elements equal the (converted) source elements, " +
			"writing to every source element afterwards leaves the destination unchanged and vice versa, a nil source leaves the field as it was or nil; structurally no element conversion without :typecast. Non-trivial: a pair that is not identical-basic or a value set with nil / shared backing; evaluations = executed value sets.",
		quick: 240, thorough: 5000, valuesQ: 12, valuesT: 60, pf: pf, extraStructural: nil, extra: c16Matrix,
		nontrivial: func(p *pg.Prog, r *behResult) bool {
			for _, st := range r.Stats {
				if st["alias_probes"] > 0 {
					return true
				}
			}
			return false
		}})
}

func withStringer(m pg.Method) pg.Method { m.Opts.Stringer = 1; return m }

// c16Matrix enumerates all ordered pairs of slice-typed atoms.
func c16Matrix(env *hx.Env, rec *hx.Recorder, t *testing.T, judge func(*pg.Prog, hx.Files) (*behResult, hx.Verdict)) {
	var atoms []pg.TypeAtom
	for _, a := range pg.Alphabet {
		if strings.HasPrefix(a.Kind, "slice") {
			atoms = append(atoms, a)
		}
	}
	type pair struct{ a, b int }
	var pairs []pair
	for i := range atoms {
		for j := range atoms {
			pairs = append(pairs, pair{i, j})
		}
	}
	const per = 24
	nfiles := (len(pairs) + per - 1) / per
	for fi := 0; fi < nfiles; fi++ {
		if !mine(env, fi) {
			continue
		}
		chunk := pairs[fi*per : min(len(pairs), fi*per+per)]
		p := &pg.Prog{BlankImportFieldPkgs: true}
		s := pg.StructDecl{Pkg: "home", Name: "MS"}
		g := pg.StructDecl{Pkg: "home", Name: "GS"} // same data behind getters
		d := pg.StructDecl{Pkg: "home", Name: "MD"}
		for k, pr := range chunk {
			n := fmt.Sprintf("F%02d", k)
			s.Fields = append(s.Fields, pg.Field{Name: n, Home: atoms[pr.a].Home, Kind: atoms[pr.a].Kind})
			g.Fields = append(g.Fields, pg.Field{Name: "f" + n + "_", Home: atoms[pr.a].Home, Kind: atoms[pr.a].Kind})
			g.Getters = append(g.Getters, pg.Getter{Name: n, Field: "f" + n + "_", Type: atoms[pr.a].Home, PtrRecv: k%2 == 0})
			d.Fields = append(d.Fields, pg.Field{Name: n, Home: atoms[pr.b].Home, Kind: atoms[pr.b].Kind})
		}
		p.Structs = []pg.StructDecl{s, g, d}
		mk := func(name, src string, tc, getter, arg bool) pg.Method {
			m := pg.Method{Name: name, SrcType: src, DstType: "MD", SrcPtr: true, DstPtr: true}
			if tc {
				m.Opts.Typecast = 1
			}
			if getter {
				m.Opts.Getter = 1
			}
			if arg {
				m.Opts.Style = "arg"
			}
			return m
		}
		p.Ifaces = []pg.Iface{{Name: "Convergen", Methods: []pg.Method{
			mk("ConvertFields", "MS", false, false, false), mk("ConvertFieldsTypecast", "MS", true, false, true),
			mk("ConvertGetters", "GS", false, true, true), mk("ConvertGettersTypecast", "GS", true, true, false),
			// :stringer is about fields, never about the elements of a slice (with and without :typecast next to it)
			withStringer(mk("ConvertFieldsStringer", "MS", false, false, false)), withStringer(mk("ConvertGettersStringerTypecast", "GS", true, true, true))}}}
		p.FixImports()
		files := p.Files()
		r, v := judge(p, files)
		if r.S.PlanErr != "" {
			t.Fatalf("matrix file %d: %s", fi, r.S.PlanErr)
		}
		if r.S.Exit != 0 || r.NotBuilt != "" {
			rec.Report(t, hx.Failf("C16|matrix|rejected-or-not-compiling", "matrix file %d: exit %d\n%s\n%s", fi, r.S.Exit, tail(r.S.Stderr, 500), tail(r.NotBuilt, 800)), progCase(p, files, "matrix"))
			continue
		}
		recordBehStats(rec, r)
		rec.NonTrivialDistinctN(len(chunk) * 6)
		rec.ClassN("matrix:element-type-pairs", len(chunk))
		if fi%7 == 0 {
			rec.Sample(map[string]any{"matrix_file": fi, "pairs": fmt.Sprintf("%s->%s, %s->%s …", atoms[chunk[0].a].Home, atoms[chunk[0].b].Home, atoms[chunk[len(chunk)-1].a].Home, atoms[chunk[len(chunk)-1].b].Home), "methods": "fields / fields+typecast(arg style) / getters(arg style) / getters+typecast / fields+stringer / getters+stringer+typecast(arg style)"})
		}
		if v.OK {
			// structurally: no element conversion without :typecast (C16 third sentence) is part of C04's judge
			if sv := r.S.verdictFor("C04", p); !sv.OK {
				sv.Fingerprint = "C16" + strings.TrimPrefix(sv.Fingerprint, "C04")
				v = sv
			}
		}
		rec.Report(t, v, progCase(p, files, "matrix"))
	}
	rec.SetExhaustive(true)
	rec.Extra["matrix_slice_alphabet"] = len(atoms)

	// (c) slices inside a nested struct of the same type on both sides: copied as a whole it is one assignment, but a
	// notation below it takes the struct apart, and then its slice members are slice fields copied by name match
	if mine(env, nfiles+1) {
		p := &pg.Prog{ExtraFiles: hx.Files{{Name: "home/bag.go", Data: c16BagTypes}}}
		var ms []pg.Method
		notes := [][]pg.Notation{
			{{Kind: "skip", Args: []string{"Bag.Secret"}}},
			{{Kind: "literal", Args: []string{"Bag.Owner", `"x"`}}},
			{{Kind: "map", Args: []string{"N", "Bag.Secret"}}},
			{{Kind: "skip", Args: []string{"/Secret$/"}}},
			{{Kind: "skip", Args: []string{"Bag.Tags"}}, {Kind: "literal", Args: []string{"Other.Secret", "7"}}},
			{{Kind: "skip", Args: []string{"Deep.Bag.Owner"}}},
		}
		for i, ns := range notes {
			for _, arg := range []bool{false, true} {
				m := pg.Method{Name: fmt.Sprintf("ConvertBag%d%v", i, arg), SrcType: "BagS", DstType: "BagD", SrcPtr: true, DstPtr: true, Notes: ns}
				if arg {
					m.Opts.Style = "arg"
					m.Opts.Typecast = 1
				}
				ms = append(ms, m)
			}
		}
		p.Ifaces = []pg.Iface{{Name: "Convergen", Methods: ms}}
		p.FixImports()
		files := p.Files()
		r, v := judge(p, files)
		if r.S.PlanErr != "" {
			t.Fatalf("bag file: %s", r.S.PlanErr)
		}
		if r.S.Exit != 0 || r.NotBuilt != "" {
			rec.Report(t, hx.Failf("C16|nested-bag|rejected-or-not-compiling", "exit %d\n%s\n%s", r.S.Exit, tail(r.S.Stderr, 500), tail(r.NotBuilt, 800)), progCase(p, files, "matrix"))
		} else {
			recordBehStats(rec, r)
			rec.NonTrivialDistinctN(len(ms))
			rec.ClassN("nested-bag:methods", len(ms))
			rec.Report(t, v, progCase(p, files, "matrix"))
		}
	}
}

const c16BagTypes = `package home

type LBag struct {
	Tags   []int
	Items  []LInner
	Names  []LStr
	Secret int
	Owner  string
}

type LBagBox struct {
	Bag LBag
	K   int
}

type BagS struct {
	N     int
	Bag   LBag
	Other LBag
	Deep  LBagBox
}

type BagD struct {
	N     int
	Bag   LBag
	Other LBag
	Deep  LBagBox
}
`

// ---------------------------------------------------------------------------------------------
// C10 - pre/post hooks run once, in order, on the real operands.
// ---------------------------------------------------------------------------------------------

type c10Combo struct {
	// hook shape
	HDstPtr, HSrcPtr, HErr, HExtras bool
	Pos                             string // pre | post | both
	// method shape
	Arg, Recv, SrcPtr, DstPtr, RetErr bool
	Extras                            int
	// ExtraPtrMismatch: the hook declares its additional parameters with the opposite pointer-ness
	ExtraPtrMismatch bool
	// ExtraVariant: "" the hook's additional parameters have the types of the method's additional arguments;
	// "hook-wider": the hook takes interface{} where the method passes int / *LInner (fits: every value is assignable to it);
	// "hook-narrower": the method passes interface{} where the hook takes int / *LInner (cannot fit);
	// "variadic": the method's last additional argument is a []int and the hook's last parameter is ...int (fits only
	// if the call spreads the slice: must be rejected, or accepted with code that compiles)
	ExtraVariant string
	// HConcreteErr: the hook returns *tr.E, a concrete type that implements error, instead of error (must be refused)
	HConcreteErr bool
	// SharedWithFit: the unfit method shares its hook with a method that sorts first and that the hook does fit (the
	// fit is a property of the pair, the file must still be refused)
	SharedWithFit bool
	// OperandVariant: "twin-dst" / "twin-src": the hook's destination / source parameter is a DIFFERENT defined type with
	// exactly the operand's field list (HDTwin = `type HDTwin HD`, HSTwin lists HS's fields again): not the method's own
	// operand, must be refused; "func-type": the notation names a defined func type of the fitting signature instead of a
	// function (must be refused: `T(dst, src)` is a conversion)
	OperandVariant string
	// MixedExtras (Pos "both" only): the preprocess hook declares the additional parameters, the postprocess hook does not
	// (or the other way round when MixedExtras is 2); each call passes exactly what its hook declares
	MixedExtras int
}

func (c c10Combo) legal() bool {
	if c.HErr && !c.RetErr {
		return false // a hook that can fail needs an error result
	}
	if c.HExtras && c.Extras == 0 {
		return false // the hook declares additional parameters the method does not have
	}
	if c.ExtraPtrMismatch {
		return false // additional arguments are passed as they are: int is not *int
	}
	if c.ExtraVariant == "hook-narrower" || c.ExtraVariant == "variadic" || c.HConcreteErr || c.OperandVariant != "" {
		return false
	}
	return true
}

var c10ExtraTypes = []string{"int", "*LInner"}

func c10Method(c c10Combo, idx int, uf *pg.UserFuncs) pg.Method {
	m := pg.Method{Name: fmt.Sprintf("Convert%04d", idx), SrcType: "HS", DstType: "HD", SrcPtr: c.SrcPtr, DstPtr: c.DstPtr, RetErr: c.RetErr}
	if c.Arg {
		m.Opts.Style = "arg"
	}
	if c.Recv {
		m.Recv = "rcv"
	}
	for i := 0; i < c.Extras; i++ {
		et := c10ExtraTypes[i]
		if c.ExtraVariant == "hook-narrower" {
			et = "interface{}"
		}
		if c.ExtraVariant == "variadic" && i == c.Extras-1 {
			et = "[]int"
		}
		m.Extras = append(m.Extras, pg.Param{Type: et})
	}
	var hx []pg.Param
	if c.HExtras {
		hx = m.Extras
		switch c.ExtraVariant {
		case "hook-wider":
			hx = nil
			for range m.Extras {
				hx = append(hx, pg.Param{Type: "interface{}"})
			}
		case "hook-narrower":
			hx = nil
			for i := range m.Extras {
				hx = append(hx, pg.Param{Type: c10ExtraTypes[i]})
			}
		case "variadic":
			hx = append([]pg.Param{}, m.Extras...)
			hx[len(hx)-1].Type = "...int"
		}
		if len(hx) == 0 {
			hx = []pg.Param{{Type: "int"}} // illegal on purpose
		}
		if c.ExtraPtrMismatch {
			hx = nil
			for _, e := range m.Extras {
				if strings.HasPrefix(e.Type, "*") {
					hx = append(hx, pg.Param{Type: strings.TrimPrefix(e.Type, "*")})
				} else {
					hx = append(hx, pg.Param{Type: "*" + e.Type})
				}
			}
		}
	}
	for _, pos := range []string{"preprocess", "postprocess"} {
		if c.Pos == "both" || strings.HasPrefix(pos, c.Pos) {
			uf.NextConcreteErr = c.HConcreteErr
			hd, hs := "HD", "HS"
			switch c.OperandVariant {
			case "twin-dst":
				hd = "HDTwin"
			case "twin-src":
				hs = "HSTwin"
			case "func-type":
				uf.NextAsType = true
			}
			hxe := hx
			if c.MixedExtras == 1 && pos == "postprocess" || c.MixedExtras == 2 && pos == "preprocess" {
				hxe = nil
			}
			name := uf.Hook(pos[:3], hd, c.HDstPtr, hs, c.HSrcPtr, hxe, c.HErr)
			m.Notes = append(m.Notes, pg.Notation{Kind: pos, Args: []string{name}})
		}
	}
	return m
}

const c10Types = `package home

type HS struct {
	A int
	B string
	C []int
	P *LInner
	OnlySrc int
}

type HD struct {
	A int
	B string
	C []int
	P *LInner
	Unassigned  string
	Unassigned2 *int
}

// the same field lists under other names: distinct types
type HDTwin HD

type HSTwin struct {
	A int
	B string
	C []int
	P *LInner
	OnlySrc int
}
`

func c10All() []c10Combo {
	var out []c10Combo
	for _, pos := range []string{"pre", "post", "both"} {
		for h := 0; h < 16; h++ {
			for m := 0; m < 32; m++ {
				for ex := 0; ex <= 2; ex++ {
					c := c10Combo{HDstPtr: h&1 != 0, HSrcPtr: h&2 != 0, HErr: h&4 != 0, HExtras: h&8 != 0, Pos: pos,
						Arg: m&1 != 0, Recv: m&2 != 0, SrcPtr: m&4 != 0, DstPtr: m&8 != 0, RetErr: m&16 != 0, Extras: ex}
					out = append(out, c)
					if c.HErr && c.RetErr && !c.HExtras && ex == 0 {
						c2 := c
						c2.HConcreteErr = true
						out = append(out, c2)
					}
					if !c.legal() && (c.HErr && !c.RetErr && !(c.HExtras && ex == 0) || c.HExtras && ex == 0 && (!c.HErr || c.RetErr)) {
						c2 := c
						c2.SharedWithFit = true
						out = append(out, c2)
					}
					if c.legal() && pos == "both" && c.HExtras && ex > 0 {
						for mx := 1; mx <= 2; mx++ {
							c2 := c
							c2.MixedExtras = mx
							out = append(out, c2)
						}
					}
					if c.legal() {
						for _, v := range []string{"twin-dst", "twin-src", "func-type"} {
							c2 := c
							c2.OperandVariant = v
							out = append(out, c2)
						}
					}
					if c.HExtras && ex > 0 && (!c.HErr || c.RetErr) {
						c.ExtraPtrMismatch = true
						out = append(out, c)
						c.ExtraPtrMismatch = false
						for _, v := range []string{"hook-wider", "hook-narrower", "variadic"} {
							c.ExtraVariant = v
							out = append(out, c)
						}
					}
				}
			}
		}
	}
	return out
}

func c10Enumeration(env *hx.Env, rec *hx.Recorder, t *testing.T, judge func(*pg.Prog, hx.Files) (*behResult, hx.Verdict)) {
	all := c10All()
	var legal, illegal []c10Combo
	for _, c := range all {
		if c.legal() {
			legal = append(legal, c)
		} else {
			illegal = append(illegal, c)
		}
	}
	rec.Extra["hook_method_combinations"] = len(all)
	rec.Extra["legal"] = len(legal)
	rec.Extra["must_reject"] = len(illegal)
	stride := env.Pick(3, 1)
	const per = 16
	batchNo := 0
	for b := 0; b*per < len(legal); b++ {
		if int(hx.SplitMix64(uint64(b)^env.Seed*0x9e37)%uint64(stride)) != 0 {
			continue
		}
		batchNo++
		if !mine(env, batchNo) {
			continue
		}
		chunk := legal[b*per : min(len(legal), b*per+per)]
		p := &pg.Prog{ExtraFiles: hx.Files{{Name: "home/hooktypes.go", Data: c10Types}}}
		uf := &pg.UserFuncs{}
		it := pg.Iface{Name: "Convergen"}
		for k, c := range chunk {
			it.Methods = append(it.Methods, c10Method(c, b*per+k, uf))
		}
		p.Ifaces = []pg.Iface{it}
		p.HomeFuncs = uf.String()
		p.FixImports()
		files := p.Files()
		r, v := judge(p, files)
		if r.S.PlanErr != "" {
			t.Fatalf("C10 batch %d: %s", b, r.S.PlanErr)
		}
		if r.S.Exit != 0 || r.NotBuilt != "" {
			// attribute: judge each method alone
			attributed := false
			for k, c := range chunk {
				q := &pg.Prog{ExtraFiles: p.ExtraFiles}
				uf1 := &pg.UserFuncs{}
				q.Ifaces = []pg.Iface{{Name: "Convergen", Methods: []pg.Method{c10Method(c, b*per+k, uf1)}}}
				q.HomeFuncs = uf1.String()
				q.FixImports()
				r1, _ := judge(q, q.Files())
				if r1.S.Exit != 0 || r1.NotBuilt != "" {
					what := "rejected"
					if r1.NotBuilt != "" {
						what = "does-not-compile"
					}
					attributed = true
					rec.Report(t, hx.Failf("C10|hook:"+c.Pos+"|fitting-hook-"+what, "hook that fits the method is %s: %+v\n%s\n%s\n%s", what, c, q.RenderSetup(), tail(r1.S.Stderr, 500), tail(r1.NotBuilt, 800)), progCase(q, q.Files(), "hook-combination"))
				}
			}
			if !attributed {
				// only the combination of methods fails: the batch is the case
				what := "rejected"
				if r.NotBuilt != "" {
					what = "does-not-compile"
				}
				rec.Report(t, hx.Failf("C10|hook-batch|fitting-hooks-"+what, "a batch of methods with fitting hooks is %s although each method alone is accepted\n%s\n%s\n%s", what, p.RenderSetup(), tail(r.S.Stderr, 500), tail(r.NotBuilt, 800)), progCase(p, files, "hook-batch"))
			}
			continue
		}
		recordBehStats(rec, r)
		rec.NonTrivialDistinctN(len(chunk))
		rec.ClassN("enumeration:legal-combinations-executed", len(chunk))
		if batchNo%5 == 1 {
			rec.Sample(map[string]any{"combination": chunk[len(chunk)/2], "method": it.Methods[len(chunk)/2].MethodLine(), "notations": it.Methods[len(chunk)/2].NotationLines()})
		}
		rec.Report(t, v, progCase(p, files, "hook-batch"))
	}
	// hooks that cannot fit must be rejected at generation time
	for i, c := range illegal {
		// hash-based sample: the list is periodic (variants of one combination follow each other), a plain stride would
		// always pick the same variant
		if int(hx.SplitMix64(uint64(i)^env.Seed*0x9e37)%uint64(stride)) != 0 || !mine(env, i) {
			continue
		}
		q := &pg.Prog{ExtraFiles: hx.Files{{Name: "home/hooktypes.go", Data: c10Types}}}
		uf1 := &pg.UserFuncs{}
		unfit := c10Method(c, i, uf1)
		q.Ifaces = []pg.Iface{{Name: "Convergen", Methods: []pg.Method{unfit}}}
		if c.SharedWithFit {
			// the same hooks on a method they fit: an error result added, or the additional argument the hook wants
			fit := c
			fit.SharedWithFit = false
			if fit.HErr && !fit.RetErr {
				fit.RetErr = true
			}
			if fit.HExtras && fit.Extras == 0 {
				fit.Extras = 1
			}
			nb := c10Method(fit, i, &pg.UserFuncs{})
			nb.Name = "AaaFits" + nb.Name
			nb.Notes = unfit.Notes
			q.Ifaces[0].Methods = []pg.Method{nb, unfit}
			rec.Class("enumeration:unfit-hook-shared-with-a-method-it-fits")
		}
		q.HomeFuncs = uf1.String()
		q.FixImports()
		o, err := pg.RunModule(env, q.Files())
		if err != nil {
			t.Fatal(err)
		}
		exit, crashed, stderr := o.Res.Exit, o.Res.Crashed(), o.Res.Stderr
		o.Cleanup()
		rec.Eval()
		rec.NonTrivialDistinctN(1)
		rec.Class("enumeration:unfit-hook-must-be-rejected")
		if c.ExtraVariant == "variadic" && exit == 0 && !crashed {
			// accepted: then the call has to spread the slice, i.e. the output must compile
			rec.Class("enumeration:variadic-hook-accepted")
			if r1, _ := judge(q, q.Files()); r1.NotBuilt != "" {
				rec.Report(t, hx.Failf("C10|hook:"+c.Pos+"|variadic-hook-does-not-compile", "a variadic hook fed from a slice argument is accepted but the generated call does not compile: %+v\n%s\n%s", c, q.RenderSetup(), tail(r1.NotBuilt, 800)), progCase(q, q.Files(), "unfit-hook"))
			}
			continue
		}
		if exit == 0 || crashed {
			why := "error-returning hook on a method without error result"
			if c.HConcreteErr {
				why = "hook that returns a concrete error type instead of error"
			}
			if c.ExtraVariant == "hook-narrower" {
				why = "hook whose additional parameters (int, *LInner) cannot take the method's interface{} arguments"
			}
			switch c.OperandVariant {
			case "twin-dst", "twin-src":
				why = "hook whose operand parameter is a different defined type with the same field list (" + c.OperandVariant + ")"
			case "func-type":
				why = "':" + c.Pos + "process' naming a func TYPE instead of a function"
			}
			if c.HExtras && c.Extras == 0 {
				why = "hook with additional parameters on a method without additional arguments"
			} else if c.ExtraPtrMismatch {
				why = "hook whose additional parameters differ in pointer-ness from the method's additional arguments"
			}
			rec.Report(t, hx.Failf("C10|hook:"+c.Pos+"|unfit-hook-accepted", "%s is accepted (exit %d, crashed %v): %+v\n%s\n%s", why, exit, crashed, c, q.RenderSetup(), tail(stderr, 400)), progCase(q, q.Files(), "unfit-hook"))
		}
	}
	if stride == 1 {
		rec.SetExhaustive(true)
	}
}

func TestC10(t *testing.T) {
	pf := fullProfile()
	pf.Notations = true
	pf.HookHeavy = true
	runBehavioural(t, behOpts{id: "C10", level: "exploration",
		rule: "(a) enumeration of hook shape {destination by pointer/value} x {source by pointer/value} x {error} x {additional parameters} x position {pre, post, both} x method shape {style, receiver, source pointer/value, destination pointer/value, error result, 0-2 additional arguments (int, *LInner)} = 4608 combinations plus 1152 with additional parameters of the opposite pointer-ness (thorough: all; quick: a seeded third): " +
			"fitting combinations are generated 16 methods per file and executed - hooks are instrumented (record a deep dump of every argument and the pointer identities; a by-pointer preprocess hook overwrites every destination field) - unfit hooks (error without error result, additional parameters the method lacks) must be rejected; " +
			"(b) rapid programs with hooks next to notations, imported hooks (odd-layout package) and all non-reverse shapes. Oracle: trace starts with the pre hook and ends with the post hook, each exactly once; what each hook observed (values, operand identity W/R/other, extras in order) equals what the reference observed; " +
			"fields the copy assigns overwrite the pre hook's values, unassigned fields keep them; the post hook sees the final state. Non-trivial: hook whose pointer-ness differs from the operand's, or with extras, or imported; evaluations = executed value sets.",
		quick: 320, thorough: 5000, valuesQ: 6, valuesT: 24, pf: pf, extra: c10Enumeration,
		nontrivial: func(p *pg.Prog, r *behResult) bool {
			for _, st := range r.Stats {
				if st["hook_calls"] > 0 {
					return true
				}
			}
			return false
		}})
}
