package props

import (
	"fmt"
	"sort"
	"strings"
	"testing"

	"pgregory.net/rapid"
	"verif/hx"
	"verif/pg"
)

// ---------------------------------------------------------------------------------------------
// C01 - every successfully generated file is gofmt-clean Go that compiles in its package.
// Oracle: format.Source fixpoint + the real `go build` of the home package under the ordinary build.
// ---------------------------------------------------------------------------------------------

// fullProfile opens every dimension of Engine P.
func fullProfile() pg.Profile {
	return pg.Profile{MaxFields: 7, MaxPairs: 3, MaxMethods: 6, MaxIfaces: 2, Toggles: true, Shapes: true, Notations: true,
		Hooks: true, ExtStructs: true, NonASCII: true, Docs: true, ExcludeKind: map[string]bool{}}
}

// c01Judge runs convergen over the module and judges the output with gofmt and the compiler.
// It returns the verdict and a class label for the evidence histogram.
func c01Judge(env *hx.Env, files hx.Files) (hx.Verdict, string) {
	o, err := pg.RunModule(env, files)
	if err != nil {
		return hx.Failf("harness|io", "%v", err), "harness-error"
	}
	defer o.Cleanup()
	if o.Res.TimedOut {
		return hx.Verdict{OK: true, Inconclusive: true}, "timeout"
	}
	if o.Res.Exit != 0 {
		return hx.Pass, "rejected"
	}
	if !o.HasOut {
		return hx.Failf("C01|no-output|exit0", "exit 0 but no output file\nstderr: %s", o.Res.Stderr), "no-output"
	}
	if !pg.GofmtClean(o.Out) {
		return hx.Failf("C01|gofmt|not-a-fixpoint", "output is not gofmt-clean:\n%s", o.Out), "not-gofmt-clean"
	}
	ok, errs, raw := pg.Build(o.Dir)
	if ok {
		return hx.Pass, "compiled"
	}
	if raw == pg.BuildTimeout {
		return hx.Verdict{OK: true, Inconclusive: true}, "build-timeout"
	}
	if len(errs) == 0 {
		return hx.Failf("C01|build|unparsed", "go build failed:\n%s", raw), "build-failed"
	}
	var fps []string
	for _, e := range errs {
		if strings.HasSuffix(e.File, "setup.gen.go") {
			fps = append(fps, pg.NormalizeCompilerMsg(e.Msg))
		}
	}
	if len(fps) == 0 {
		// the compiler complains about a file the harness wrote itself: generator bug, not a finding
		return hx.Failf("harness|generated-sources-do-not-compile", "%s", raw), "harness-error"
	}
	sort.Strings(fps)
	return hx.Failf("C01|compile|"+fps[0], "output does not compile:\n%s\n---- output ----\n%s", raw, o.Out), "does-not-compile"
}

func progSummary(p *pg.Prog) string {
	var sb strings.Builder
	for _, it := range p.Ifaces {
		for _, l := range it.Opts.Lines() {
			sb.WriteString("// " + l + "\n")
		}
		sb.WriteString("type " + it.Name + " interface {\n")
		for _, m := range it.Methods {
			for _, l := range m.NotationLines() {
				sb.WriteString("\t// " + l + "\n")
			}
			sb.WriteString("\t" + m.MethodLine() + "\n")
		}
		sb.WriteString("}\n")
	}
	return sb.String()
}

// progNonTrivial implements C01's rule: at least one construct that needs more than a plain same-type copy.
func progNonTrivial(p *pg.Prog) bool {
	for _, m := range p.AllMethods() {
		if len(m.Notes) > 0 || m.Opts != (pg.Toggles{}) || m.Recv != "" || m.Reverse || len(m.Extras) > 0 || strings.Contains(m.MethodLine(), "ext.") {
			return true
		}
	}
	for _, s := range p.Structs {
		for _, f := range s.Fields {
			if !strings.HasPrefix(f.Kind, "basic") {
				return true
			}
		}
	}
	return false
}

func classifyProg(rec *hx.Recorder, p *pg.Prog) {
	for _, m := range p.AllMethods() {
		rec.Class("methods")
		if m.Opts.Style == "arg" {
			rec.Class("method:style-arg")
		}
		if m.Recv != "" {
			rec.Class("method:recv")
		}
		if m.Reverse {
			rec.Class("method:reverse")
		}
		if m.RetErr {
			rec.Class("method:error-result")
		}
		if len(m.Extras) > 0 {
			rec.Class("method:extras")
		}
		if strings.Contains(m.MethodLine(), "ext.") {
			rec.Class("method:imported-operand")
		}
		for _, n := range m.Notes {
			rec.Class("notation:" + n.Kind)
			if n.Kind != "preprocess" && n.Kind != "postprocess" && len(n.Args) > 0 && strings.Contains(n.Args[len(n.Args)-1], ".") && n.Kind != "literal" {
				rec.Class("notation:nested-dst-path")
			}
		}
	}
	if len(p.Ifaces) > 1 {
		rec.Class("prog:multi-interface")
	}
}

func TestC01(t *testing.T) {
	env, rec := start(t, "C01", "exploration",
		"rapid-generated setup files over Engine P's type alphabet (basic, named, stringer, pointer, struct local/imported/anonymous/empty/hidden, slices, maps, interfaces, error, func, chan), "+
			"struct pairs with shared/related/case-variant field names and getters, all method shapes, toggles, :skip/:map/:conv/:literal/hooks incl. nested paths; "+
			"every run that exits 0 is judged by gofmt fixpoint and `go build` of the package under the ordinary build. "+
			"Non-trivial: the file holds at least one construct beyond a plain same-type copy (conversion toggle, notation, non-default shape, imported or non-basic field type); distinct by hash of the rendered interfaces and struct declarations.")
	defer rec.Done()
	needBin(t, env)
	rec.Assume("go1.23 compiler and gofmt as the definition of valid, gofmt-clean Go")

	judgeCase := func(c *hx.Case) hx.Verdict {
		v, _ := c01Judge(env, c.Files)
		return v
	}
	if env.Replay != "" {
		c, err := hx.LoadCase(env.Replay)
		if err != nil {
			t.Fatal(err)
		}
		rec.Eval()
		rec.Report(t, judgeCase(c), c)
		return
	}
	rec.ReplayTier(judgeCase)

	pf := fullProfile()
	applyOpenFindingExclusions(&pf, rec)
	rapidRun(t, env, "programs", env.Pick(1600, 40000), func(rt *rapid.T) {
		p := pg.GenProg(rt, pf)
		files := p.Files()
		w := pg.NewWorld(files, true)
		if w.Pkg("home") == nil || len(w.Errors) > 0 {
			rec.Class("generator-invalid")
			if rec.Classes["generator-invalid"] > 5+rec.Evals/20 {
				rt.Fatalf("generator produces too many ill-typed programs: %s\n%s", w.ErrText(), p.RenderSetup())
			}
			return
		}
		rec.Eval()
		classifyProg(rec, p)
		v, class := c01Judge(env, files)
		rec.Class("outcome:" + class)
		if progNonTrivial(p) && class == "compiled" {
			rec.NonTrivial(progSummary(p) + fmt.Sprint(p.Structs))
		}
		rec.Sample(progSummary(p))
		rec.Report(rt, v, &hx.Case{Kind: "program", Files: files})
	})
}

// applyOpenFindingExclusions keeps constructs of open known findings out of generators whose subject
// is something else (DESIGN.md 3.4); each rule names its finding and is counted in the evidence.
func applyOpenFindingExclusions(pf *pg.Profile, rec *hx.Recorder) {
}
