package props

import (
	"encoding/json"
	"fmt"
	"regexp"
	"strings"
	"testing"
	"unicode"

	"github.com/reedom/convergen/pkg/option"
	"pgregory.net/rapid"
	"verif/hx"
)

// ---------------------------------------------------------------------------------------------
// C19 - name and pattern matchers: equality, Unicode case folding, RE2 search, history independence
// Oracle: the standard library itself (==, strings.EqualFold, regexp with a "(?i)" prefix).
// ---------------------------------------------------------------------------------------------

type c19Query struct {
	Path  string `json:"path"`
	Exact bool   `json:"exact"`
}

// c19Meta is the replayable unit: one pattern, the case rule the matcher is created with, and a
// query sequence on that one matcher.
type c19Meta struct {
	API     string     `json:"api"` // pattern | ident | name | conv | options
	Pattern string     `json:"pattern"`
	Create  bool       `json:"create_exact"`
	Queries []c19Query `json:"queries"`
}

func isRegexpForm(p string) bool {
	return strings.HasPrefix(p, "/") && strings.HasSuffix(p, "/") && len(p) >= 2
}

// c19Oracle returns the expected answer; valid=false when RE2 rejects the expression (then nothing is
// demanded of the tool).
func c19Oracle(pattern, path string, exact bool) (want, valid bool) {
	if isRegexpForm(pattern) {
		expr := pattern[1 : len(pattern)-1]
		if _, err := regexp.Compile(expr); err != nil {
			return false, false
		}
		if !exact {
			expr = "(?i)" + expr
		}
		re, err := regexp.Compile(expr)
		if err != nil {
			return false, false
		}
		return re.MatchString(path), true
	}
	if exact {
		return pattern == path, true
	}
	return strings.EqualFold(pattern, path), true
}

func c19Construct(pattern string) string {
	if !isRegexpForm(pattern) {
		for _, r := range pattern {
			if r > unicode.MaxASCII {
				return "plain:non-ascii"
			}
		}
		return "plain:ascii"
	}
	e := pattern[1 : len(pattern)-1]
	switch {
	case strings.Contains(e, `\P`) || strings.Contains(e, `\p`):
		return "re:unicode-class"
	case strings.Contains(e, `\W`) || strings.Contains(e, `\D`) || strings.Contains(e, `\S`) || strings.Contains(e, `\B`):
		return "re:negated-perl-class"
	case strings.Contains(e, `\A`) || strings.Contains(e, `\Q`) || strings.Contains(e, `\x`) || strings.Contains(e, `\z`):
		return "re:upper-case-escape"
	case strings.Contains(e, "(?P<") || strings.Contains(e, "(?"):
		return "re:group-syntax"
	case strings.Contains(e, "["):
		return "re:class"
	}
	for _, r := range e {
		if r > unicode.MaxASCII {
			return "re:non-ascii"
		}
	}
	return "re:other"
}

// c19Judge runs the query sequence against the real matcher and compares every answer with the
// oracle. A panic is a violation (no answer at all).
func c19Judge(m c19Meta) (v hx.Verdict) {
	step := -1
	defer func() {
		if r := recover(); r != nil {
			v = hx.Failf("C19|"+m.API+"|"+c19Construct(m.Pattern)+"|panic",
				"pattern %q created exact=%v: panic at query %d: %v", m.Pattern, m.Create, step, r)
		}
	}()
	switch m.API {
	case "pattern":
		pm, err := option.NewPatternMatcher(m.Pattern, m.Create)
		_, valid := c19Oracle(m.Pattern, "", m.Create)
		if err != nil {
			if valid {
				return hx.Failf("C19|pattern|"+c19Construct(m.Pattern)+"|rejected",
					"pattern %q is valid RE2 (or plain) but is rejected with exact=%v: %v", m.Pattern, m.Create, err)
			}
			return hx.Pass
		}
		if !valid {
			return hx.Pass // tool accepted something the oracle cannot judge; nothing demanded
		}
		for i, q := range m.Queries {
			step = i
			want, _ := c19Oracle(m.Pattern, q.Path, q.Exact)
			got := pm.Match(q.Path, q.Exact)
			if got != want {
				hist := "fresh"
				if i > 0 || q.Exact != m.Create {
					hist = "after-history"
					// does a fresh matcher agree? then it is history dependence
					if fm, err := option.NewPatternMatcher(m.Pattern, q.Exact); err == nil && fm.Match(q.Path, q.Exact) == want {
						hist = "history-dependent"
					}
				}
				return hx.Failf("C19|pattern|"+c19Construct(m.Pattern)+"|wrong-answer:"+hist,
					"pattern %q path %q exact=%v (created exact=%v, query #%d): got %v want %v",
					m.Pattern, q.Path, q.Exact, m.Create, i, got, want)
			}
		}
	case "ident", "name", "conv", "literal":
		for i, q := range m.Queries {
			step = i
			var got, want bool
			switch m.API {
			case "ident":
				// :map / :conv / :literal destinations are compared with exactCase=true by the builder
				got = option.NewIdentMatcher(m.Pattern).Match(q.Path, true)
				want = m.Pattern == q.Path
			case "name":
				got = option.NewNameMatcher(m.Pattern, m.Pattern, 0).Match(q.Path, q.Path, true)
				want = m.Pattern == q.Path
			case "conv":
				got = option.NewFieldConverter("f", m.Pattern, "", 0).Match(q.Path, q.Path)
				want = m.Pattern == q.Path
			case "literal":
				got = option.NewLiteralSetter(m.Pattern, "1", 0).Dst().Match(q.Path, true)
				want = m.Pattern == q.Path
			}
			if got != want {
				return hx.Failf("C19|"+m.API+"|exact-compare|wrong-answer",
					"%s matcher %q vs %q: got %v want %v", m.API, m.Pattern, q.Path, got, want)
			}
		}
	case "options":
		// Options.ShouldSkip with several skip patterns created under one rule and queried under another:
		// the way the builder uses the matchers (":skip" before/after ":case:off").
		var opts option.Options
		pats := strings.Split(m.Pattern, "\x00")
		for _, p := range pats {
			pm, err := option.NewPatternMatcher(p, m.Create)
			if err != nil {
				if _, valid := c19Oracle(p, "", m.Create); valid {
					return hx.Failf("C19|options|"+c19Construct(p)+"|rejected", "pattern %q rejected: %v", p, err)
				}
				return hx.Pass
			}
			if _, valid := c19Oracle(p, "", true); !valid {
				return hx.Pass
			}
			opts.SkipFields = append(opts.SkipFields, pm)
		}
		for i, q := range m.Queries {
			step = i
			opts.ExactCase = q.Exact
			want := false
			for _, p := range pats {
				w, _ := c19Oracle(p, q.Path, q.Exact)
				want = want || w
			}
			if got := opts.ShouldSkip(q.Path); got != want {
				return hx.Failf("C19|options|"+c19Construct(pats[0])+"|wrong-answer",
					"ShouldSkip(%q) exact=%v with patterns %q: got %v want %v", q.Path, q.Exact, pats, got, want)
			}
			if got, want := opts.CompareFieldName(pats[0], q.Path), c19Plain(pats[0], q.Path, q.Exact); got != want {
				return hx.Failf("C19|options|compare-field-name|wrong-answer",
					"CompareFieldName(%q,%q) exact=%v: got %v want %v", pats[0], q.Path, q.Exact, got, want)
			}
		}
	case "options-copies":
		// Several copies of ONE options value, each with its own :skip list, queried in turn: the way the parser hands the
		// options from the interface to each method (by value). What one copy answered must not show in another.
		base := option.NewOptions()
		lists := strings.Split(m.Pattern, "\x01")
		copies := make([]option.Options, len(lists))
		for k, l := range lists {
			o := base
			for _, p := range strings.Split(l, "\x00") {
				pm, err := option.NewPatternMatcher(p, m.Create)
				if err != nil {
					return hx.Pass // judged by the "options" family
				}
				if _, valid := c19Oracle(p, "", true); !valid {
					return hx.Pass
				}
				o.SkipFields = append(o.SkipFields, pm)
			}
			copies[k] = o
		}
		for i, q := range m.Queries {
			step = i
			k := i % len(copies)
			o := copies[k]
			o.ExactCase = q.Exact
			want := false
			for _, p := range strings.Split(lists[k], "\x00") {
				w, _ := c19Oracle(p, q.Path, q.Exact)
				want = want || w
			}
			if got := o.ShouldSkip(q.Path); got != want {
				return hx.Failf("C19|options-copies|"+c19Construct(strings.Split(lists[k], "\x00")[0])+"|wrong-answer",
					"copy %d of one options value, query #%d: ShouldSkip(%q) exact=%v with patterns %q: got %v want %v (the other copies hold %q)", k, i, q.Path, q.Exact, strings.Split(lists[k], "\x00"), got, want, lists)
			}
		}
	default:
		return hx.Failf("harness|bad-api", "unknown api %q", m.API)
	}
	return hx.Pass
}

// c19First returns the first pattern of a pattern list ("\x00" separates patterns, "\x01" lists).
func c19First(p string) string {
	if i := strings.IndexAny(p, "\x00\x01"); i >= 0 {
		return p[:i]
	}
	return p
}

func c19Plain(a, b string, exact bool) bool {
	if exact {
		return a == b
	}
	return strings.EqualFold(a, b)
}

func c19NonTrivial(m c19Meta) bool {
	sw := false
	for _, q := range m.Queries {
		if q.Exact != m.Create {
			sw = true
		}
	}
	if sw {
		return true
	}
	all := m.Pattern
	for _, q := range m.Queries {
		all += q.Path
	}
	for _, r := range all {
		if r > unicode.MaxASCII || unicode.IsUpper(r) {
			return true
		}
	}
	return isRegexpForm(m.Pattern) && strings.ContainsAny(m.Pattern[1:len(m.Pattern)-1], `\.+*?()|[]{}^$`)
}

func c19Case(m c19Meta) *hx.Case {
	b, _ := json.Marshal(m)
	return &hx.Case{Kind: "matcher-" + m.API, Meta: b}
}

// ---- generators ----

var c19Letters = []rune("aAbBsSkKiIzZxX_09ſKİıσςΣǅßẞéÉµΜ")

func genIdent() *rapid.Generator[string] {
	return rapid.Custom(func(t *rapid.T) string {
		n := rapid.IntRange(1, 5).Draw(t, "n")
		var sb strings.Builder
		for i := 0; i < n; i++ {
			sb.WriteRune(rapid.SampledFrom(c19Letters).Draw(t, "r"))
		}
		return sb.String()
	})
}

func genPath() *rapid.Generator[string] {
	return rapid.Custom(func(t *rapid.T) string {
		n := rapid.IntRange(1, 3).Draw(t, "segs")
		segs := make([]string, n)
		for i := range segs {
			segs[i] = genIdent().Draw(t, "seg")
		}
		return strings.Join(segs, ".")
	})
}

// foldVariants lists runes that are related by case (simple folding orbit plus upper/lower).
func foldVariants(r rune) []rune {
	out := []rune{r}
	for f := unicode.SimpleFold(r); f != r; f = unicode.SimpleFold(f) {
		out = append(out, f)
	}
	out = append(out, unicode.ToUpper(r), unicode.ToLower(r), unicode.ToTitle(r))
	return out
}

// mutateCase derives a string that is likely (not certainly) fold-equal to s.
func mutateCase(t *rapid.T, s string) string {
	rs := []rune(s)
	for i := range rs {
		switch rapid.IntRange(0, 9).Draw(t, "mut") {
		case 0, 1, 2:
			v := foldVariants(rs[i])
			rs[i] = rapid.SampledFrom(v).Draw(t, "fold")
		case 3:
			rs[i] = rapid.SampledFrom(c19Letters).Draw(t, "repl")
		}
	}
	out := string(rs)
	switch rapid.IntRange(0, 11).Draw(t, "len") {
	case 0:
		out += string(rapid.SampledFrom(c19Letters).Draw(t, "app"))
	case 1:
		if len(rs) > 1 {
			out = string(rs[:len(rs)-1])
		}
	case 2:
		out = string(rapid.SampledFrom(c19Letters).Draw(t, "pre")) + out
	}
	return out
}

var reAtomsFixed = []string{
	`.`, `\w`, `\W`, `\d`, `\D`, `\s`, `\S`, `\pL`, `\PL`, `\p{Lu}`, `\p{Ll}`, `\P{Lu}`, `\p{Greek}`, `[A-Z]`, `[a-z]`, `[^a-z]`, `[^A-Z]`,
	`[[:upper:]]`, `[[:alpha:]]`, `[K-S]`, `[k-s]`, `\x41`, `\x{17F}`, `\x6b`, `\.`, `\Qa.B\E`, `[\W]`, `[\D\.]`, `[^\pL]`, `[\p{Lu}]`,
}

func genRegexp(path string) *rapid.Generator[string] {
	prs := []rune(path)
	var rec func(t *rapid.T, depth int) string
	atom := func(t *rapid.T, depth int) string {
		switch rapid.IntRange(0, 9).Draw(t, "atom") {
		case 0, 1, 2:
			// literal run taken from the path (possibly case-mutated) so that matches are frequent
			if len(prs) > 0 {
				i := rapid.IntRange(0, len(prs)-1).Draw(t, "i")
				j := rapid.IntRange(i, min(len(prs)-1, i+3)).Draw(t, "j")
				return regexp.QuoteMeta(mutateCase(t, string(prs[i:j+1])))
			}
			return "a"
		case 3:
			return regexp.QuoteMeta(string(rapid.SampledFrom(c19Letters).Draw(t, "lit")))
		case 4, 5, 6:
			return rapid.SampledFrom(reAtomsFixed).Draw(t, "fixed")
		case 7:
			if depth < 2 {
				g := rapid.SampledFrom([]string{"(", "(?:", "(?P<Name>", "(?i:", "(?-i:", "(?s:", "(?U:"}).Draw(t, "grp")
				return g + rec(t, depth+1) + ")"
			}
			return "."
		case 8:
			// character class built from path runes
			var sb strings.Builder
			sb.WriteString("[")
			if rapid.Bool().Draw(t, "neg") {
				sb.WriteString("^")
			}
			n := rapid.IntRange(1, 3).Draw(t, "n")
			for k := 0; k < n; k++ {
				r := rapid.SampledFrom(c19Letters).Draw(t, "cr")
				if len(prs) > 0 && rapid.Bool().Draw(t, "fromPath") {
					r = prs[rapid.IntRange(0, len(prs)-1).Draw(t, "pi")]
				}
				sb.WriteString(regexp.QuoteMeta(string(r)))
			}
			sb.WriteString("]")
			return sb.String()
		default:
			return rapid.SampledFrom([]string{`^`, `$`, `\b`, `\B`, `\A`, `\z`}).Draw(t, "anchor")
		}
	}
	rec = func(t *rapid.T, depth int) string {
		nAlt := rapid.IntRange(1, 2).Draw(t, "alts")
		var alts []string
		for a := 0; a < nAlt; a++ {
			n := rapid.IntRange(1, 4).Draw(t, "atoms")
			var sb strings.Builder
			for i := 0; i < n; i++ {
				sb.WriteString(atom(t, depth))
				sb.WriteString(rapid.SampledFrom([]string{"", "", "", "", "*", "+", "?", "{1,2}", "*?"}).Draw(t, "rep"))
			}
			alts = append(alts, sb.String())
		}
		return strings.Join(alts, "|")
	}
	return rapid.Custom(func(t *rapid.T) string {
		pre := rapid.SampledFrom([]string{"", "", "", "", "^", "(?i)", "(?-i)", "(?s)"}).Draw(t, "pre")
		post := rapid.SampledFrom([]string{"", "", "", "$"}).Draw(t, "post")
		return pre + rec(t, 0) + post
	})
}

func genC19Meta() *rapid.Generator[c19Meta] {
	return rapid.Custom(func(t *rapid.T) c19Meta {
		path := genPath().Draw(t, "path")
		var m c19Meta
		m.API = rapid.SampledFrom([]string{"pattern", "pattern", "pattern", "pattern", "options", "ident", "name", "conv", "literal", "options-copies"}).Draw(t, "api")
		mkPattern := func() string {
			if m.API == "pattern" || m.API == "options" || m.API == "options-copies" {
				switch rapid.IntRange(0, 9).Draw(t, "form") {
				case 0, 1, 2:
					return mutateCase(t, path)
				case 3:
					return "/" + mutateCase(t, path) // looks like a regexp but is plain (no closing slash) unless it ends in "/"
				default:
					return "/" + genRegexp(path).Draw(t, "re") + "/"
				}
			}
			return mutateCase(t, path)
		}
		m.Pattern = mkPattern()
		if m.API == "options" {
			n := rapid.IntRange(0, 2).Draw(t, "more")
			for i := 0; i < n; i++ {
				m.Pattern += "\x00" + mkPattern()
			}
		}
		if m.API == "options-copies" {
			// two or three lists of equal length, different content
			n := rapid.IntRange(1, 2).Draw(t, "listLen")
			nl := rapid.IntRange(2, 3).Draw(t, "lists")
			var lists []string
			for k := 0; k < nl; k++ {
				var l []string
				for i := 0; i < n; i++ {
					if k > 0 && rapid.IntRange(0, 2).Draw(t, "otherName") == 0 {
						l = append(l, rapid.SampledFrom([]string{"Other", "other.Path", "/^zz/", "X"}).Draw(t, "otherPat"))
					} else {
						l = append(l, mkPattern())
					}
				}
				lists = append(lists, strings.Join(l, "\x00"))
			}
			m.Pattern = strings.Join(lists, "\x01")
		}
		m.Create = rapid.Bool().Draw(t, "create")
		nq := rapid.IntRange(1, 6).Draw(t, "nq")
		for i := 0; i < nq; i++ {
			q := c19Query{Exact: rapid.Bool().Draw(t, "exact")}
			switch rapid.IntRange(0, 3).Draw(t, "qp") {
			case 0:
				q.Path = path
			case 1:
				q.Path = mutateCase(t, path)
			case 2:
				first := c19First(m.Pattern)
				q.Path = mutateCase(t, strings.Trim(first, "/"))
			default:
				q.Path = genPath().Draw(t, "other")
			}
			m.Queries = append(m.Queries, q)
		}
		return m
	})
}

// ---- exhaustive small scope ----

var c19Small = []rune{'a', 'A', 'b', '.', 's', 'ſ', 'k', 'K', 'i', 'İ'}

func c19SmallStrings() []string {
	out := []string{""}
	level := []string{""}
	for l := 0; l < 3; l++ {
		var next []string
		for _, s := range level {
			for _, r := range c19Small {
				next = append(next, s+string(r))
			}
		}
		out = append(out, next...)
		level = next
	}
	return out
}

func TestC19(t *testing.T) {
	env, rec := start(t, "C19", "exploration",
		"(a) complete enumeration of all (pattern, path, case rule) triples with pattern and path of length<=3 over {a A b . s ſ k K(U+212A) i İ}, "+
			"for plain patterns, the same strings wrapped as /regexp/, and the case-sensitive :map/:conv comparison; "+
			"(b) rapid-generated patterns (plain, RE2 grammar with classes, escapes, anchors, groups, flags) with query sequences that alternate the case rule on one matcher, "+
			"through PatternMatcher, Options.ShouldSkip/CompareFieldName, IdentMatcher, NameMatcher, FieldConverter; oracle = ==, strings.EqualFold, regexp with (?i); "+
			"(e) end to end: 1-4 ':skip' lines (plain, /regexp/ with inline flags, anchored literals) with ':case'/':case:off' lines at any position go through the production notation parser, builder and generator on a fixed struct pair (top-level and nested paths, non-ASCII names) and the set of '// skip:' comments must be exactly the paths that at least one pattern matches on its own under the method's case rule. "+
			"Non-trivial: a triple with a non-ASCII or upper-case letter or a regexp metacharacter, or a sequence that switches the case rule; enumerated triples are distinct by construction, generated ones are deduplicated by hash.")
	defer rec.Done()
	rec.Assume("oracle is Go's regexp (RE2) and strings.EqualFold from the toolchain that builds the harness")
	rec.Assume("paths and patterns contain no white space (a notation argument cannot carry any)")

	judgeCase := func(c *hx.Case) hx.Verdict {
		if c.Kind == "e2e" && c19E2EReplay != nil {
			return c19E2EReplay(env, c)
		}
		var m c19Meta
		if err := json.Unmarshal(c.Meta, &m); err != nil {
			return hx.Failf("harness|bad-meta", "%v", err)
		}
		return c19Judge(m)
	}
	if env.Replay != "" {
		c, err := hx.LoadCase(env.Replay)
		if err != nil {
			t.Fatal(err)
		}
		rec.Eval()
		rec.Report(t, judgeCase(c), c)
		return
	}
	rec.ReplayTier(judgeCase)

	// (a) exhaustive small scope
	t.Run("small-scope", func(t *testing.T) {
		strs := c19SmallStrings()
		nontrivial := func(p, s string) bool {
			for _, r := range p + s {
				if r > unicode.MaxASCII || unicode.IsUpper(r) || r == '.' {
					return true
				}
			}
			return false
		}
		for pi, p := range strs {
			if !mine(env, pi) {
				continue
			}
			for _, form := range []string{"plain", "re"} {
				pat := p
				if form == "re" {
					pat = "/" + p + "/"
				} else if isRegexpForm(p) {
					continue
				}
				for _, exact := range []bool{true, false} {
					pm, err := option.NewPatternMatcher(pat, exact)
					_, valid := c19Oracle(pat, "", exact)
					if err != nil {
						if valid {
							m := c19Meta{API: "pattern", Pattern: pat, Create: exact}
							rec.Report(t, c19Judge(m), c19Case(m))
						}
						continue
					}
					if !valid {
						continue
					}
					nt := 0
					for _, s := range strs {
						want, _ := c19Oracle(pat, s, exact)
						var got bool
						func() {
							defer func() {
								if r := recover(); r != nil {
									got = !want
								}
							}()
							got = pm.Match(s, exact)
						}()
						if got != want {
							m := c19Meta{API: "pattern", Pattern: pat, Create: exact, Queries: []c19Query{{s, exact}}}
							if !rec.Report(t, c19Judge(m), c19Case(m)) {
								// known finding: the shared matcher may be in a bad state; get a new one
								pm, _ = option.NewPatternMatcher(pat, exact)
							}
						}
						if form == "re" || nontrivial(p, s) {
							nt++
						}
					}
					rec.EvalN(len(strs))
					rec.NonTrivialDistinctN(nt)
					rec.ClassN("small-scope:"+form, len(strs))
				}
			}
			// case-sensitive comparison of :map/:conv paths
			im := option.NewIdentMatcher(p)
			nt := 0
			for _, s := range strs {
				if im.Match(s, true) != (p == s) {
					m := c19Meta{API: "ident", Pattern: p, Create: true, Queries: []c19Query{{s, true}}}
					rec.Report(t, c19Judge(m), c19Case(m))
				}
				if nontrivial(p, s) {
					nt++
				}
			}
			rec.EvalN(len(strs))
			rec.NonTrivialDistinctN(nt)
			rec.ClassN("small-scope:ident-exact", len(strs))
		}
		rec.SetExhaustive(true)
		rec.Extra["small_scope_strings"] = len(strs)
		rec.Sample(map[string]any{"enumeration": "all pattern/path strings of length<=3 over " + string(c19Small),
			"example": []any{"/ſ./", "S.a", false}})
	})

	// (b)+(c) generated patterns and query sequences on one matcher
	rapidRun(t, env, "generated", env.Pick(800000, 20000000), func(rt *rapid.T) {
		m := genC19Meta().Draw(rt, "case")
		rec.Eval()
		rec.Class("api:" + m.API)
		first := c19First(m.Pattern)
		rec.Class("construct:" + c19Construct(first))
		if _, valid := c19Oracle(first, "", true); !valid {
			rec.Class("re2-rejects-pattern")
		} else if c19NonTrivial(m) {
			rec.NonTrivial(fmt.Sprintf("%+v", m))
		}
		sw := false
		matched := false
		for _, q := range m.Queries {
			if q.Exact != m.Create {
				sw = true
			}
			if w, ok := c19Oracle(first, q.Path, q.Exact); ok && w {
				matched = true
			}
		}
		if sw {
			rec.Class("sequence-switches-case-rule")
		}
		if matched {
			rec.Class("some-query-expected-to-match")
		}
		rec.Sample(m)
		rec.Report(rt, c19Judge(m), c19Case(m))
	})

	// (e) end to end through the production notation parser, builder and generator (c19_e2e_test.go, build tag verif)
	if c19EndToEnd != nil {
		c19EndToEnd(t, env, rec)
	}
}

// set by c19_e2e_test.go (only built with the verif tag, which bin/check always passes)
var (
	c19EndToEnd  func(t *testing.T, env *hx.Env, rec *hx.Recorder)
	c19E2EReplay func(env *hx.Env, c *hx.Case) hx.Verdict
)
