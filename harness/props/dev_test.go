package props

import (
	"fmt"
	"os"
	"path/filepath"
	"sort"
	"strings"
	"testing"
	"time"

	"pgregory.net/rapid"
	"verif/hx"
	"verif/pg"
)

// TestDevRejects is a development aid (not registered): histogram of rejection messages.
func TestDevRejects(t *testing.T) {
	if os.Getenv("VERIF_DEV") == "" {
		t.Skip("dev only")
	}
	env := hx.LoadEnv("DEV")
	os.MkdirAll(env.Work, 0o755)
	hist := map[string]int{}
	ex := map[string]string{}
	pf := fullProfile()
	rapidRun(t, env, "x", 300, func(rt *rapid.T) {
		p := pg.GenProg(rt, pf)
		o, _ := pg.RunModule(env, p.Files())
		defer o.Cleanup()
		if o.Res.Exit != 0 {
			lines := strings.Split(strings.TrimSpace(o.Res.Stderr), "\n")
			key := lines[0]
			if i := strings.Index(key, ": "); i > 0 {
				key = key[i+2:]
			}
			key = pg.NormalizeCompilerMsg(key)
			hist[key]++
			ex[key] = o.Res.Stderr + "\n" + p.RenderSetup()
		}
	})
	var ks []string
	for k := range hist {
		ks = append(ks, k)
	}
	sort.Slice(ks, func(i, j int) bool { return hist[ks[i]] > hist[ks[j]] })
	for _, k := range ks {
		t.Logf("%4d %s", hist[k], k)
	}
	for _, k := range ks {
		t.Logf("==== %s\n%s", k, ex[k])
	}
}

// TestDevC12Timing is a development aid: wall time of single runs in the C12 setting.
func TestDevC12Timing(t *testing.T) {
	if os.Getenv("VERIF_DEV") == "" {
		t.Skip("dev only")
	}
	env := hx.LoadEnv("DEV")
	os.MkdirAll(env.Work, 0o755)
	env.InitScratchCache()
	setup := c12Variant{TA: "int", TB: "int", Methods: c12MethodPool[:1]}.render()
	for _, link := range []bool{false, true, false, true} {
		for _, k := range []int{0, 50, 77, 120, 300} {
			root := env.Scratch("hist")
			base := (&pg.Prog{}).Files().Set("home/sib.go", c12Sibling).Set("ext/setup.gen.go", c12DepNamedLikeOutput).Set(pg.SetupPath, setup)
			hx.WriteTree(root, base)
			if link {
				os.Symlink(root, root+"-link")
			}
			var durs []string
			for i := 0; i < 3; i++ {
				t0 := time.Now()
				o, _ := c12RunOnce(env, root, 0)
				durs = append(durs, fmt.Sprintf("%dms(exit %d)", time.Since(t0).Milliseconds(), o.Exit))
				if i == 0 && o.Out != nil && k < len(*o.Out) {
					os.WriteFile(filepath.Join(root, filepath.FromSlash(pg.OutPath)), []byte((*o.Out)[:k]), 0o644)
				}
			}
			t.Logf("link=%v k=%d: %v", link, k, durs)
			os.RemoveAll(root)
			os.Remove(root + "-link")
		}
	}
}

// TestDevConcreteGetters counts programs with a (T, *tr.E) getter that a notation or a same-named destination field reaches.
func TestDevConcreteGetters(t *testing.T) {
	if os.Getenv("VERIF_DEV") == "" {
		t.Skip("dev only")
	}
	env := hx.LoadEnv("DEV")
	pf := fullProfile()
	pf.ErrHeavy = true
	n, withG, inHome := 0, 0, 0
	rapidRun(t, env, "x", 300, func(rt *rapid.T) {
		p := pg.GenProg(rt, pf)
		n++
		for _, f := range p.Files() {
			if strings.Contains(f.Data, "*tr.E) {") && f.Name != "home/zoo.go" {
				withG++
				if strings.HasPrefix(f.Name, "home/") {
					inHome++
				}
				if withG < 3 {
					t.Logf("%s\n%s\n%s", f.Name, f.Data, p.RenderSetup())
				}
				break
			}
		}
	})
	t.Logf("programs %d, with concrete-error getter %d (home %d)", n, withG, inHome)
}

func TestDevErrGetterNotes(t *testing.T) {
	if os.Getenv("VERIF_DEV") == "" {
		t.Skip("dev only")
	}
	env := hx.LoadEnv("DEV")
	pf := fullProfile()
	pf.ErrHeavy = true
	n, with, noErr := 0, 0, 0
	rapidRun(t, env, "x", 300, func(rt *rapid.T) {
		p := pg.GenProg(rt, pf)
		n++
		for _, m := range p.AllMethods() {
			for _, nt := range m.Notes {
				if nt.Kind == "map" && strings.Contains(nt.Args[0], ".E()") && strings.HasPrefix(nt.Args[0], "$") {
					with++
					if !m.RetErr {
						noErr++
						if noErr < 3 {
							t.Logf("%s\n%s", strings.Join(m.NotationLines(), "\n"), m.MethodLine())
						}
					}
				}
			}
		}
	})
	t.Logf("programs %d, $k.E() notes %d, in methods without error %d", n, with, noErr)
}
