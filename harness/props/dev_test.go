package props

import (
	"os"
	"sort"
	"strings"
	"testing"

	"pgregory.net/rapid"
	"verif/hx"
	"verif/pg"
)

// TestDevRejects is a development aid (not registered): histogram of rejection messages.
func TestDevRejects(t *testing.T) {
	if os.Getenv("VERIF_DEV") == "" {
		t.Skip("dev only")
	}
	env := hx.LoadEnv("DEV")
	os.MkdirAll(env.Work, 0o755)
	hist := map[string]int{}
	ex := map[string]string{}
	pf := fullProfile()
	rapidRun(t, env, "x", 300, func(rt *rapid.T) {
		p := pg.GenProg(rt, pf)
		o, _ := pg.RunModule(env, p.Files())
		defer o.Cleanup()
		if o.Res.Exit != 0 {
			lines := strings.Split(strings.TrimSpace(o.Res.Stderr), "\n")
			key := lines[0]
			if i := strings.Index(key, ": "); i > 0 {
				key = key[i+2:]
			}
			key = pg.NormalizeCompilerMsg(key)
			hist[key]++
			ex[key] = o.Res.Stderr + "\n" + p.RenderSetup()
		}
	})
	var ks []string
	for k := range hist {
		ks = append(ks, k)
	}
	sort.Slice(ks, func(i, j int) bool { return hist[ks[i]] > hist[ks[j]] })
	for _, k := range ks {
		t.Logf("%4d %s", hist[k], k)
	}
	for _, k := range ks {
		t.Logf("==== %s\n%s", k, ex[k])
	}
}
