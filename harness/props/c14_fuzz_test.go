//go:build verif

package props

import (
	"fmt"
	"os"
	"path/filepath"
	"strings"
	"sync"
	"testing"

	"github.com/reedom/convergen/pkg/logger"
	"github.com/reedom/convergen/pkg/parser"
	"verif/hx"
	"verif/pg"
)

// FuzzC14 is the native coverage-guided target for hostile notation text (thorough tier). Through the
// verif-tagged VerifSession hook it feeds arbitrary comment lines into the production sequence
// parseNotationInComments -> resolveConverters -> CreateFunction -> FuncToString on one preloaded
// package (thousands of executions per second instead of one `go list` per input). Oracle: no panic; a
// successful generation contains the function of the method. Every verdict class is also exercised end to
// end through the binary by TestC14, so the hook cannot hide a divergence.

const c14FuzzSetup = `//go:build convergen

package home

import (
	_ "example.com/m/ext"
	_ "example.com/m/odd-dir"
)

type Convergen interface {
	FuzzM0(*HA) *HB
	FuzzM1(a *HA, n int, s string) (*HB, error)
	FuzzM2(HA) HB
	FuzzM3(*HB) *HA
	FuzzM4(*HA, *HA) (*HB, error)
}
`

var (
	c14FuzzOnce    sync.Once
	c14FuzzSession *parser.VerifSession
	c14FuzzErr     error
	c14FuzzMethods = []string{"Convergen.FuzzM0", "Convergen.FuzzM1", "Convergen.FuzzM2", "Convergen.FuzzM3", "Convergen.FuzzM4"}
)

func c14FuzzInit() {
	// bin/check points VERIF_FUZZ_TMP into its own work directory, which it removes on exit
	dir, err := os.MkdirTemp(os.Getenv("VERIF_FUZZ_TMP"), "verif-c14fuzz-")
	if err != nil {
		c14FuzzErr = err
		return
	}
	files := c14Files(c14FuzzSetup)
	if err := hx.WriteTree(dir, files); err != nil {
		c14FuzzErr = err
		return
	}
	logger.SetupLogger(logger.ForTest())
	os.Setenv("GOFLAGS", "")
	c14FuzzSession, c14FuzzErr = parser.NewVerifSession(filepath.Join(dir, filepath.FromSlash(pg.SetupPath)), filepath.Join(dir, filepath.FromSlash(pg.OutPath)))
}

func FuzzC14(f *testing.F) {
	for _, pl := range c14Planted {
		if pl[1] != "" {
			f.Add("// "+pl[1], uint8(0), uint8(0))
		}
	}
	for _, s := range []string{"// :typecast\n// :stringer\n// :map X X", "// :conv f1 X\n// :skip /^P/\n// :literal S \"x\"", "// :style arg\n// :recv r\n// :reverse",
		"// :map $2 X\n// :map $3 S", "// :preprocess h2\n// :postprocess h2e", "// :case:off\n// :skip /\\pL/\n// :case", "// :conv FuzzM0 P P", "// :map P.Get() X\n// :map ErrGet() X",
		"// :literal PE nil\n// :typecast", "// :match none\n// :getter\n// :map Get() X"} {
		f.Add(s, uint8(1), uint8(0))
		f.Add(s, uint8(0), uint8(1))
	}
	f.Fuzz(func(t *testing.T, text string, method, ifaceLines uint8) {
		c14FuzzOnce.Do(c14FuzzInit)
		if c14FuzzErr != nil {
			t.Skip("fuzz session could not be created: " + c14FuzzErr.Error()) // infrastructure, not a verdict
		}
		if len(text) > 600 {
			t.Skip()
		}
		lines := strings.Split(text, "\n")
		if len(lines) > 8 {
			lines = lines[:8]
		}
		k := int(ifaceLines) % (len(lines) + 1)
		if k > 2 {
			k = 2
		}
		m := c14FuzzMethods[int(method)%len(c14FuzzMethods)]
		var out string
		var err error
		func() {
			defer func() {
				if r := recover(); r != nil {
					t.Fatalf("VIOLATION C14 [C14|crash|in-process]: panic %v\nmethod %s\ninterface lines %q\nmethod lines %q", r, m, lines[:k], lines[k:])
				}
			}()
			out, err = c14FuzzSession.Generate(m, lines[:k], lines[k:])
		}()
		if err == nil {
			name := m[strings.Index(m, ".")+1:]
			if !strings.Contains(out, " "+name+"(") {
				t.Fatalf("VIOLATION C14 [C14|method-dropped|in-process]: success without a function for %s\n%s", m, out)
			}
		} else if strings.TrimSpace(err.Error()) == "" {
			t.Fatalf("VIOLATION C14 [C14|silent-failure|in-process]: empty error message for %q", fmt.Sprint(lines))
		}
	})
}
